#!/bin/bash
# Build the mlrvc engine offline. Run from /verif.
set -e
cd "$(dirname "$0")"
export PATH=/opt/veriftools/go1.26.8/bin:$PATH GOTOOLCHAIN=local GOFLAGS=-mod=mod GOPROXY=off GOSUMDB=off
mkdir -p build
(cd engine && go build -o ../build/mlrvc .)
echo "setup ok: $(ls -la build/mlrvc)"
