#!/usr/bin/env python3
# Generates the inference section (C06/C03) of /repo/pkg/mlrval/verif_contracts.go; prints to stdout.
MODS="F:mlrval.Mlrval.printrep F:mlrval.Mlrval.printrepValid F:mlrval.Mlrval.mvtype F:mlrval.Mlrval.intf"
s='''// ---------------------------------------------------------------------------------------------
// C06 / C03: type inference from data.
// ---------------------------------------------------------------------------------------------

//@ import "github.com/johnkerl/miller/v6/pkg/scan"

// A value as the readers create it: type pending, original text valid.
//@ spec func Pending(mv *Mlrval) bool { return mv != nil && mv.mvtype == MT_PENDING && mv.printrepValid }
// Every inferrer keeps the original text byte for byte (C03) and touches nothing but mv.
//@ spec func TextKept(mv *Mlrval, old string) bool { return mv.printrepValid && mv.printrep == old }
//@ spec func WFT(mv *Mlrval) bool { return WF(mv) && imp(mv.mvtype == MT_VOID || mv.mvtype == MT_STRING, mv.printrepValid) && imp(mv.mvtype == MT_VOID, mv.printrep == "") && imp(mv.mvtype == MT_STRING, mv.printrep != "") }

// Trusted facts about strconv (its parsers are outside the verified code).
//@ axiom parsefloat_accepts_decimal_digits: forallstr(s, imp(scan.ClassStr(s) == 1 || scan.ClassStr(s) == 2, ext[error]("strconv.ParseFloat", 1, s, 64) == nil))

// strconv accepts every non-empty run of at most 16 hex digits as an unsigned 64-bit value, and as
// a signed one when it has at most 15 digits or 16 digits the first of which is 0..7 (trusted).
//@ axiom parseuint_hex16: forallstr(s, imp(1 <= len(s) && len(s) <= 16 && allChars(s, 0, scan.IsHexByte), ext[error]("strconv.ParseUint", 1, s, 16, 64) == nil))
//@ axiom parseint_hex63: forallstr(s, imp(1 <= len(s) && (len(s) <= 15 || (len(s) == 16 && s[0] >= '0' && s[0] <= '7')) && allChars(s, 0, scan.IsHexByte), ext[error]("strconv.ParseInt", 1, s, 16, 64) == nil))

//@ properties C06 C03 C18

//@ func (*Mlrval).SetFromString
//@ requires mv != nil && mv.mvtype == MT_PENDING
//@ modifies F:mlrval.Mlrval.printrep F:mlrval.Mlrval.printrepValid F:mlrval.Mlrval.mvtype
//@ ensures result == mv && TextKept(mv, input)
//@ ensures mv.mvtype == ite(input == "", MT_VOID, MT_STRING)
//@ ensures forallp(q, Mlrval, imp(q != mv, unchanged(q)))

//@ func (*Mlrval).SetFromPrevalidatedIntString
//@ requires mv != nil && mv.mvtype == MT_PENDING
//@ modifies MODS
//@ ensures result == mv && TextKept(mv, input)
//@ ensures mv.mvtype == MT_INT && typeIs[int64](mv.intf) && mv.intf.(int64) == intval
//@ ensures forallp(q, Mlrval, imp(q != mv, unchanged(q)))

//@ func (*Mlrval).SetFromPrevalidatedFloatString
//@ requires mv != nil && mv.mvtype == MT_PENDING
//@ modifies MODS
//@ ensures result == mv && TextKept(mv, input)
//@ ensures mv.mvtype == MT_FLOAT && typeIs[float64](mv.intf) && sameFloat(mv.intf.(float64), floatval)
//@ ensures forallp(q, Mlrval, imp(q != mv, unchanged(q)))
'''
def inf(name, cls, kinds, extra=()):
    global s
    req = "Pending(mv)" + (f" && scan.ClassStr(mv.printrep) == {cls}" if cls is not None else "")
    s += f'''
//@ func {name}
//@ requires {req}
//@ modifies MODS
//@ ensures result == mv && TextKept(mv, old(mv.printrep)) && WFT(mv)
//@ ensures {" || ".join(f"mv.mvtype == {k}" for k in kinds)}
//@ ensures forallp(q, Mlrval, imp(q != mv, unchanged(q)))
'''
    for e in extra: s += f"//@ ensures {e}\n"
STRK=["MT_STRING","MT_VOID"]
inf("inferDecimalInt", 1, ["MT_INT","MT_FLOAT"])      # documented: an int that does not fit in 64 bits becomes a float
inf("inferLeadingZeroDecimalIntAsInt", 2, ["MT_INT","MT_FLOAT"])
inf("inferOctalInt", 3, ["MT_INT"]+STRK)
inf("inferFromLeadingZeroOctalIntAsInt", 4, ["MT_INT"]+STRK)
inf("inferHexInt", 5, ["MT_INT"]+STRK, extra=['imp(len(old(mv.printrep)) - ite(old(mv.printrep)[0] == \'-\' || old(mv.printrep)[0] == \'+\', 3, 2) <= 16, mv.mvtype == MT_INT)'])
inf("inferBinaryInt", 6, ["MT_INT"]+STRK)
inf("inferMaybeFloat", None, ["MT_FLOAT"]+STRK, extra=['imp(ext[error]("strconv.ParseFloat", 1, old(mv.printrep), 64) == nil, mv.mvtype == MT_FLOAT)'])
inf("inferString", None, STRK, extra=['mv.mvtype == ite(old(mv.printrep) == "", MT_VOID, MT_STRING)'])
CS = "scan.ClassStr(old(mv.printrep))"
s += f'''
//@ func inferBaseInt
//@ requires Pending(mv) && (scan.ClassStr(mv.printrep) == 3 || scan.ClassStr(mv.printrep) == 6)
//@ modifies MODS
//@ ensures result == mv && TextKept(mv, old(mv.printrep)) && WFT(mv)
//@ ensures mv.mvtype == MT_INT || mv.mvtype == MT_STRING || mv.mvtype == MT_VOID
//@ ensures forallp(q, Mlrval, imp(q != mv, unchanged(q)))

// The inferrer tables are indexed by scan type ("synchronize this with the type-ordering in the
// scan package").
//@ spec func ruleNormalTable(i int, f tInferrer) bool {{ return imp(i == 0 || i == 2 || i == 4, funcIs(f, "mlrval.inferString")) && imp(i == 1, funcIs(f, "mlrval.inferDecimalInt")) && imp(i == 3, funcIs(f, "mlrval.inferOctalInt")) && imp(i == 5, funcIs(f, "mlrval.inferHexInt")) && imp(i == 6, funcIs(f, "mlrval.inferBinaryInt")) && imp(i == 7, funcIs(f, "mlrval.inferMaybeFloat")) }}
//@ spec func ruleOctalTable(i int, f tInferrer) bool {{ return imp(i == 0, funcIs(f, "mlrval.inferString")) && imp(i == 1, funcIs(f, "mlrval.inferDecimalInt")) && imp(i == 2, funcIs(f, "mlrval.inferLeadingZeroDecimalIntAsInt")) && imp(i == 3, funcIs(f, "mlrval.inferOctalInt")) && imp(i == 4, funcIs(f, "mlrval.inferFromLeadingZeroOctalIntAsInt")) && imp(i == 5, funcIs(f, "mlrval.inferHexInt")) && imp(i == 6, funcIs(f, "mlrval.inferBinaryInt")) && imp(i == 7, funcIs(f, "mlrval.inferMaybeFloat")) }}
//@ table normalInferrerTable ruleNormalTable 8
//@ table leadingZeroAsIntInferrerTable ruleOctalTable 8

// Default inference: the documented grammar, class by class.
//@ func inferNormally
//@ requires Pending(mv)
//@ modifies MODS
//@ ensures result == mv && TextKept(mv, old(mv.printrep)) && WFT(mv)
//@ ensures forallp(q, Mlrval, imp(q != mv, unchanged(q)))
//@ ensures imp({CS} == 0 || {CS} == 2 || {CS} == 4, mv.mvtype == ite(old(mv.printrep) == "", MT_VOID, MT_STRING))
//@ ensures imp({CS} == 1, mv.mvtype == MT_INT || mv.mvtype == MT_FLOAT)
//@ ensures imp({CS} == 7, mv.mvtype == MT_FLOAT || mv.mvtype == MT_STRING)
//@ ensures imp({CS} == 3 || {CS} == 5 || {CS} == 6, mv.mvtype == MT_INT || mv.mvtype == MT_STRING)

// -O: leading-zero numerals are ints (decimal when a digit 8 or 9 occurs, octal otherwise).
//@ func inferWithOctalAsInt
//@ requires Pending(mv)
//@ modifies MODS
//@ ensures result == mv && TextKept(mv, old(mv.printrep)) && WFT(mv)
//@ ensures forallp(q, Mlrval, imp(q != mv, unchanged(q)))
//@ ensures imp({CS} == 0, mv.mvtype == ite(old(mv.printrep) == "", MT_VOID, MT_STRING))
//@ ensures imp({CS} == 1 || {CS} == 2, mv.mvtype == MT_INT || mv.mvtype == MT_FLOAT)

// -A: every int becomes a float; the text is still untouched.
//@ func inferWithIntAsFloat
//@ requires Pending(mv)
//@ modifies MODS
//@ ensures result == mv && TextKept(mv, old(mv.printrep)) && WFT(mv)
//@ ensures mv.mvtype != MT_INT
//@ ensures forallp(q, Mlrval, imp(q != mv, unchanged(q)))

// Type(): just-in-time inference, once.
//@ func (*Mlrval).Type
//@ property C03 C06 C08 C18
//@ requires mv != nil && imp(mv.mvtype == MT_PENDING, mv.printrepValid)
//@ modifies MODS
//@ ensures imp(old(mv.mvtype) != MT_PENDING, result == old(mv.mvtype) && nothingModified())
//@ ensures result == mv.mvtype && imp(old(mv.mvtype) == MT_PENDING, MT_INT <= result && result < MT_DIM)
//@ ensures imp(old(mv.mvtype) == MT_PENDING, TextKept(mv, old(mv.printrep)) && WFT(mv))
//@ ensures forallp(q, Mlrval, imp(q != mv, unchanged(q)))
'''
print(s.replace("MODS", MODS))
