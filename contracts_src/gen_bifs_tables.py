# table rules and dispatchers (exec'd by gen_bifs.py)
def section_tables():
    o=[]
    w=lambda s="": o.append(s)
    w("//@ properties C08")
    IN = lambda c: f'inClass(f, "bifs.{c}")'
    INT = lambda c: f'inClass(ft, "bifs.{c}")'
    mirror = " || ".join([f"({IN('ret1')} && {INT('ret2')})", f"({IN('ret2')} && {INT('ret1')})"] +
                          [f"({IN(c)} && {INT(c)})" for c in ("absent2","void2","null2","error2","num2","pick2")])
    def rule(name, absent_id=True, int_only=False, void=None, comm=False):
        num = (lambda x: f"{x} == 0") if int_only else (lambda x: f"({x} == 0 || {x} == 1)")
        parts = ["f != nil", f"imp(i == 11 && j == 11, {IN('absent2')})"]
        if absent_id:
            parts += [f"imp(i == 11 && {num('j')}, {IN('ret2')})", f"imp(j == 11 && {num('i')}, {IN('ret1')})"]
        if void == "ret":
            parts += [f"imp(i == 3 && {num('j')}, {IN('ret2')})", f"imp(j == 3 && {num('i')}, {IN('ret1')})"]
        if void == "neg":
            parts += [f"imp(i == 3 && {num('j')}, {IN('neg2')})", f"imp(j == 3 && {num('i')}, {IN('ret1')})"]
        parts += [f"imp((i == 9 && j <= 4) || (j == 9 && i <= 4), {IN('error2')})"]
        if comm:
            parts += [f"({mirror})"]
        w(f"//@ spec func rule_{name}(i, j int, f, ft BinaryFunc) bool {{ return " + " && ".join(parts) + " }")
        w(f"//@ table {name} rule_{name}")
    rule("plus_dispositions", void="ret", comm=True)
    rule("minus_dispositions", void="neg")
    rule("times_dispositions", void="ret", comm=True)
    rule("divide_dispositions")
    rule("int_divide_dispositions")
    rule("modulus_dispositions")
    rule("pow_dispositions")
    rule("dot_plus_dispositions", void="ret", comm=True)
    rule("dotminus_dispositions", void="neg")
    rule("dottimes_dispositions", void="ret", comm=True)
    rule("dotdivide_dispositions")
    rule("min_dispositions", void="ret", comm=True)
    rule("max_dispositions", void="ret", comm=True)
    for t in ("bitwise_and","bitwise_or","bitwise_xor"):
        rule(t+"_dispositions", int_only=True, comm=True)
    for t in ("left_shift","signed_right_shift","unsigned_right_shift"):
        rule(t+"_dispositions", int_only=True)
    # unary vectors: absent in, absent out
    w('//@ spec func rule_unary_absent(i int, f UnaryFunc) bool { return f != nil && imp(i == 11, inClass(f, "bifs.absent1")) }')
    for t in ("upos","uneg","bitwise_not","bitcount"):
        w(f"//@ table {t}_dispositions rule_unary_absent")
    w('//@ spec func rule_mathlib_absent(i int, f mathLibUnaryFuncWrapper) bool { return f != nil && imp(i == 11, inClass(f, "bifs.absent1")) && imp(i == 3, inClass(f, "bifs.void1")) }')
    w("//@ table mudispo rule_mathlib_absent")
    w("//@ table imudispo rule_mathlib_absent")
    w()
    for n,c in (("_math_unary_absn1","absent1"),("_math_unary_null1","null1"),("_math_unary_void1","void1")):
        w(f"//@ func {n}"); w("//@ encoding bv"); w("//@ requires input1 != nil"); w("//@ modifies nothing"); w(f"//@ class {c}"); w()
    w("//@ func _math_unary_erro1"); w("//@ encoding bv"); w("//@ requires input1 != nil"); w("//@ modifies F:mlrval.Mlrval.printrep F:mlrval.Mlrval.printrepValid"); w("//@ class error1"); w()
    for n in ("min_b_bb","max_b_bb"):
        w(f"//@ func {n}"); w("//@ encoding bv"); w("//@ requires input1 != nil && input2 != nil && input1.mvtype == mlrval.MT_BOOL && input2.mvtype == mlrval.MT_BOOL && typeIs[bool](input1.intf) && typeIs[bool](input2.intf)".replace("input1.mvtype","mlrval.VKind(input1)").replace("input2.mvtype","mlrval.VKind(input2)").replace("typeIs[bool](input1.intf)","mlrval.IsBoolVal(input1)").replace("typeIs[bool](input2.intf)","mlrval.IsBoolVal(input2)")); w("//@ modifies nothing"); w("//@ class pick2"); w()
    for n in ("min_s_ss","max_s_ss"):
        w(f"//@ func {n}"); w("//@ encoding bv"); w("//@ requires input1 != nil && input2 != nil && (mlrval.VKind(input1) == mlrval.MT_STRING || mlrval.VKind(input1) == mlrval.MT_VOID) && (mlrval.VKind(input2) == mlrval.MT_STRING || mlrval.VKind(input2) == mlrval.MT_VOID)"); w("//@ modifies nothing"); w("//@ class pick2"); w()
    # the dispatcher returns what the cell it must dispatch to returns: whatever class the table
    # cell for the operand kinds belongs to, the result has that class's defining property
    KR = "mlrval.VKind(r)"
    w('//@ spec func cellOK2(f BinaryFunc, a, b, r *mlrval.Mlrval) bool { return r != nil && imp(inClass(f, "bifs.ret1"), r == a) && imp(inClass(f, "bifs.ret2"), r == b) && imp(inClass(f, "bifs.pick2"), r == a || r == b) && imp(inClass(f, "bifs.absent2"), ' + KR + ' == mlrval.MT_ABSENT) && imp(inClass(f, "bifs.void2"), ' + KR + ' == mlrval.MT_VOID) && imp(inClass(f, "bifs.null2"), ' + KR + ' == mlrval.MT_NULL) && imp(inClass(f, "bifs.error2"), ' + KR + ' == mlrval.MT_ERROR) && imp(inClass(f, "bifs.num2"), ' + KR + ' == mlrval.MT_INT || ' + KR + ' == mlrval.MT_FLOAT || ' + KR + ' == mlrval.MT_ERROR) && imp(inClass(f, "bifs.sumII"), imp(mlrval.IsIntVal(a) && mlrval.IsIntVal(b) && addFits(mlrval.VInt(a), mlrval.VInt(b)), mlrval.IsIntVal(r) && mlrval.VInt(r) == mlrval.VInt(a) + mlrval.VInt(b))) }')
    w('//@ spec func cellOK1(f UnaryFunc, a, r *mlrval.Mlrval) bool { return r != nil && imp(inClass(f, "bifs.ret1u"), r == a) && imp(inClass(f, "bifs.absent1"), ' + KR + ' == mlrval.MT_ABSENT) && imp(inClass(f, "bifs.void1"), ' + KR + ' == mlrval.MT_VOID) && imp(inClass(f, "bifs.null1"), ' + KR + ' == mlrval.MT_NULL) && imp(inClass(f, "bifs.error1"), ' + KR + ' == mlrval.MT_ERROR) }')
    # dispatchers: index safety, every cell's kernel precondition holds for the operand kinds that reach it
    w("//@ properties C08 C18")
    disp = ["BIF_plus_binary","BIF_minus_binary","BIF_times","BIF_divide","BIF_int_divide","BIF_dot_plus","BIF_dot_minus","BIF_dot_times","BIF_dot_divide",
            "BIF_modulus","BIF_bitwise_and","BIF_bitwise_or","BIF_bitwise_xor","BIF_left_shift","BIF_signed_right_shift","BIF_unsigned_right_shift","BIF_min_binary","BIF_max_binary"]
    TBL = {"BIF_plus_binary":"plus","BIF_minus_binary":"minus","BIF_times":"times","BIF_divide":"divide","BIF_int_divide":"int_divide","BIF_dot_plus":"dot_plus","BIF_dot_minus":"dotminus","BIF_dot_times":"dottimes","BIF_dot_divide":"dotdivide",
           "BIF_modulus":"modulus","BIF_bitwise_and":"bitwise_and","BIF_bitwise_or":"bitwise_or","BIF_bitwise_xor":"bitwise_xor","BIF_left_shift":"left_shift","BIF_signed_right_shift":"signed_right_shift","BIF_unsigned_right_shift":"unsigned_right_shift","BIF_min_binary":"min","BIF_max_binary":"max"}
    for d in disp:
        w(f"//@ func {d}"); w("//@ encoding bv"); w("//@ callee-classes-only")
        for i in range(12):
            w(f"//@ ensures imp(old(mlrval.VKind(input1)) == {i}, " + " && ".join(f"imp(old(mlrval.VKind(input2)) == {j}, cellOK2({TBL[d]}_dispositions[{i}][{j}], input1, input2, result))" for j in range(12)) + ")")
        w("//@ requires mlrval.WF(input1) && mlrval.WF(input2)")
        w("//@ modifies F:mlrval.Mlrval.printrep F:mlrval.Mlrval.printrepValid")
        w("//@ ensures result != nil")
        w("//@ ensures imp(old(mlrval.VKind(input1)) == mlrval.MT_ABSENT && old(mlrval.VKind(input2)) == mlrval.MT_ABSENT, mlrval.VKind(result) == mlrval.MT_ABSENT)")
        w("//@ ensures imp(mlrval.IsIntVal(input1) && mlrval.IsIntVal(input2), mlrval.VKind(result) == mlrval.MT_INT || mlrval.VKind(result) == mlrval.MT_FLOAT || mlrval.VKind(result) == mlrval.MT_ERROR)")
        w()
    UT = {"BIF_plus_unary":"upos","BIF_minus_unary":"uneg","BIF_bitwise_not":"bitwise_not","BIF_bitcount":"bitcount"}
    for d in ("BIF_plus_unary","BIF_minus_unary","BIF_bitwise_not","BIF_bitcount"):
        w(f"//@ func {d}"); w("//@ encoding bv")
        w(f"//@ ensures cellOK1({UT[d]}_dispositions[int(old(mlrval.VKind(input1)))], input1, result)")
        w("//@ requires mlrval.WF(input1)")
        w("//@ modifies F:mlrval.Mlrval.printrep F:mlrval.Mlrval.printrepValid")
        w("//@ ensures result != nil")
        w("//@ ensures imp(old(mlrval.VKind(input1)) == mlrval.MT_ABSENT, mlrval.VKind(result) == mlrval.MT_ABSENT)")
        if d == "BIF_minus_unary":
            w("//@ ensures imp(mlrval.IsIntVal(input1), isI(result, -old(iv(input1))))")
            w("//@ ensures imp(mlrval.IsFloatVal(input1), isF(result, -old(fv(input1))))")
        w()
    # is_* predicates: one classification (the mvtype) behind all of them
    w("//@ properties C06 C08 C18")
    K = "mlrval.VKind(input1)"
    preds = {
      "absent": f"{K} == mlrval.MT_ABSENT", "error": f"{K} == mlrval.MT_ERROR", "bool": f"{K} == mlrval.MT_BOOL", "boolean": f"{K} == mlrval.MT_BOOL",
      "bytes": f"{K} == mlrval.MT_BYTES", "float": f"{K} == mlrval.MT_FLOAT", "int": f"{K} == mlrval.MT_INT", "map": f"{K} == mlrval.MT_MAP",
      "array": f"{K} == mlrval.MT_ARRAY", "numeric": f"({K} == mlrval.MT_INT || {K} == mlrval.MT_FLOAT)", "present": f"{K} != mlrval.MT_ABSENT",
      "string": f"({K} == mlrval.MT_STRING || {K} == mlrval.MT_VOID)", "notmap": f"{K} != mlrval.MT_MAP", "notarray": f"{K} != mlrval.MT_ARRAY",
      "null": f"({K} == mlrval.MT_ABSENT || {K} == mlrval.MT_VOID || {K} == mlrval.MT_NULL)",
      "notnull": f"!({K} == mlrval.MT_ABSENT || {K} == mlrval.MT_VOID || {K} == mlrval.MT_NULL)",
      "empty": f"{K} == mlrval.MT_VOID", "notempty": f"({K} != mlrval.MT_ABSENT && {K} != mlrval.MT_VOID)",
    }
    for n, e in preds.items():
        w(f"//@ func BIF_is_{n}"); w("//@ requires mlrval.WFT(input1)"); w("//@ modifies nothing")
        w(f"//@ ensures mlrval.IsBoolVal(result) && mlrval.VBool(result) == ({e})"); w()
    return "\n".join(o)
