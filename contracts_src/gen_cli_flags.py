#!/usr/bin/env python3
"""Generates the '//@ flag' clauses of /repo/pkg/cli/verif_contracts.go from the DOCUMENTED
keystroke-saver matrix (docs/src/reference-main-flag-list.md), not from the code: each cell of the
matrix names a flag; its row label is the input format, its column label the output format.
JSON Lines is spelled, in the options, as format "json" on input; on output either format "jsonl"
or format "json" with both JSON list-wrapping and multi-line output off.
Usage: python3 gen_cli_flags.py   (prints the clauses)"""
import re
doc = open('/repo/docs/src/reference-main-flag-list.md').read()
fmt = {'CSV':'csv','TSV':'tsv','JSON':'json','JSONL':'jsonl','DKVP':'dkvp','NIDX':'nidx','XTAB':'xtab','PPRINT':'pprint','Markdown':'markdown','YAML':'yaml'}
lines = [l for l in doc.split('\n') if l.startswith('|')]
hdr = [c.strip().strip('*') for c in lines[0].strip('|').split('|')]
assert hdr[0].startswith('In'), hdr
cols = hdr[1:]
out = []
for l in lines[2:]:
    cells = [c.strip() for c in l.strip().strip('|').split('|')]
    row = cells[0].strip('*')
    if row not in fmt: continue
    for col, cell in zip(cols, cells[1:]):
        m = re.match(r'`(--[a-z]2[a-z])`', cell)
        if not m: continue
        i, o = fmt[row], fmt[col]
        ie = 'options.ReaderOptions.InputFileFormat == "%s"' % ('json' if i == 'jsonl' else i)
        if o == 'jsonl':
            oe = '(options.WriterOptions.OutputFileFormat == "jsonl" || (options.WriterOptions.OutputFileFormat == "json" && !options.WriterOptions.WrapJSONOutputInOuterList && !options.WriterOptions.JSONOutputMultiline))'
        elif o == 'json':
            oe = 'options.WriterOptions.OutputFileFormat == "json" && options.WriterOptions.WrapJSONOutputInOuterList'
        else:
            oe = 'options.WriterOptions.OutputFileFormat == "%s"' % o
        out.append('//@ flag %s : %s && %s && *pargi == old(*pargi) + 1' % (m.group(1), ie, oe))
print('\n'.join(out))

# -- the documented "Use X format for input / output / input and output data." lines
names = {'CSV':'csv','CSV-lite':'csvlite','Debian control file (DCF)':'dcf','DKVP':'dkvp','DKVPX':'dkvpx','JSON':'json','JSON Lines':'jsonl',
         'NIDX':'nidx','PPRINT':'pprint','TSV':'tsv','XTAB':'xtab','YAML':'yaml'}
def ine(f): return 'options.ReaderOptions.InputFileFormat == "%s"' % ('json' if f == 'jsonl' else f)
def oute(f):
    if f == 'jsonl':
        return '(options.WriterOptions.OutputFileFormat == "jsonl" || (options.WriterOptions.OutputFileFormat == "json" && !options.WriterOptions.WrapJSONOutputInOuterList && !options.WriterOptions.JSONOutputMultiline))'
    if f == 'json':
        return 'options.WriterOptions.OutputFileFormat == "json" && options.WriterOptions.WrapJSONOutputInOuterList'
    return 'options.WriterOptions.OutputFileFormat == "%s"' % f
more = []
for m in re.finditer(r'^\* `(--[a-z]+)(?: or [^`]*)?`: Use (.+?) format for (input and output|input|output) data\.', doc, re.M):
    flag, fname, what = m.group(1), m.group(2), m.group(3)
    if fname not in names: continue
    f = names[fname]
    parts = []
    if 'input' in what: parts.append(ine(f))
    if 'output' in what: parts.append(oute(f))
    more.append('//@ flag %s : %s && *pargi == old(*pargi) + 1' % (flag, ' && '.join(parts)))
print('\n'.join(more))
