#!/usr/bin/env python3
# Generates /repo/pkg/bifs/verif_contracts.go (convenience; the committed contract file is the
# source of truth read by mlrvc).  Usage: python3 gen_bifs.py > /repo/pkg/bifs/verif_contracts.go
HEADER = """//go:build verif

// Contracts for package bifs, read by /verif/engine (mlrvc). Comment-only: this file adds no
// declaration to the package, with or without the build tag.

package bifs

//@ import "math"

//@ spec func pII(a, b *mlrval.Mlrval) bool { return mlrval.IsIntVal(a) && mlrval.IsIntVal(b) }
//@ spec func pIF(a, b *mlrval.Mlrval) bool { return mlrval.IsIntVal(a) && mlrval.IsFloatVal(b) }
//@ spec func pFI(a, b *mlrval.Mlrval) bool { return mlrval.IsFloatVal(a) && mlrval.IsIntVal(b) }
//@ spec func pFF(a, b *mlrval.Mlrval) bool { return mlrval.IsFloatVal(a) && mlrval.IsFloatVal(b) }
//@ spec func iv(x *mlrval.Mlrval) int64 { return mlrval.VInt(x) }
//@ spec func fv(x *mlrval.Mlrval) float64 { return mlrval.VFloat(x) }
//@ spec func isI(r *mlrval.Mlrval, v int64) bool { return mlrval.IsIntVal(r) && mlrval.VInt(r) == v }
//@ spec func isF(r *mlrval.Mlrval, v float64) bool { return mlrval.IsFloatVal(r) && sameFloat(mlrval.VFloat(r), v) }
"""

import os, io, contextlib
HERE = os.path.dirname(os.path.abspath(__file__))
def run_section(fname):
    """exec a section generator that print()s its text; returns the text"""
    src = open(os.path.join(HERE, fname)).read()
    buf = io.StringIO()
    with contextlib.redirect_stdout(buf):
        exec(compile(src, fname, "exec"), {"__name__": "__section__"})
    return buf.getvalue()
def section08(): return run_section("gen_bifs_c08.py")
def section07():
    # the shared spec helpers are in HEADER
    return "\n".join(l for l in run_section("gen_bifs_c07.py").splitlines() if "//@ spec func" not in l)
exec(open(os.path.join(HERE, "gen_bifs_tables.py")).read())
exec(open(os.path.join(HERE, "gen_bifs_time.py")).read())
exec(open(os.path.join(HERE, "gen_bifs_c14.py")).read())
exec(open(os.path.join(HERE, "gen_bifs_c10.py")).read())
print(HEADER); print("// Zero-annotation safety sweep over every built-in function without an explicit contract:\n// for all argument kinds (any well-formed value, typed or still pending), no panic.\n//@ sweep C18 : BIF_.*\n"); print(section08()); print(); print(section07()); print(); print(section_tables()); print(); print(section_time()); print(); print(section_c14()); print(); print(section_c10())
