# C16 section (exec'd by gen_bifs.py)
def section_time():
    o=[]; w=lambda s="": o.append(s)
    MIN="-9223372036854775808"
    w("//@ properties C16 C18")
    w("//@ spec func absI(x int64) int64 { return ite(x < 0, -x, x) }")
    w("//@ func splitIntToDHMS")
    w("//@ encoding int")
    w("//@ requires pd != nil && ph != nil && pm != nil && ps != nil && pd != ph && pd != pm && pd != ps && ph != pm && ph != ps && pm != ps")
    w("//@ modifies P:int64")
    A = "absI(u)"
    w(f"//@ ensures imp(u != {MIN}, absI(*ps) == {A} % 60 && absI(*pm) == ({A} / 60) % 60 && absI(*ph) == ({A} / 3600) % 24 && absI(*pd) == {A} / 86400)")
    w(f"//@ ensures imp(u != {MIN}, absI(*pd)*86400 + absI(*ph)*3600 + absI(*pm)*60 + absI(*ps) == {A})")
    w(f"//@ ensures imp(u != {MIN} && *pd != 0, (*pd < 0) == (u < 0) && *ph >= 0 && *pm >= 0 && *ps >= 0)")
    w(f"//@ ensures imp(u != {MIN} && *pd == 0 && *ph != 0, (*ph < 0) == (u < 0) && *pm >= 0 && *ps >= 0)")
    w(f"//@ ensures imp(u != {MIN} && *pd == 0 && *ph == 0 && *pm != 0, (*pm < 0) == (u < 0) && *ps >= 0)")
    w(f"//@ ensures imp(u != {MIN} && *pd == 0 && *ph == 0 && *pm == 0, *ps == u)")
    w(f"//@ ensures imp(u == {MIN}, *pd == -106751991167300 && *ph == 15 && *pm == 30 && *ps == 8)")
    w()
    for f in ("BIF_sec2dhms","BIF_sec2hms","BIF_fsec2dhms","BIF_fsec2hms"):
        w(f"//@ func {f}"); w("//@ encoding bv"); w("//@ requires mlrval.WFT(input1)")
        w("//@ ensures result != nil && (mlrval.VKind(result) == mlrval.MT_STRING || mlrval.VKind(result) == mlrval.MT_VOID || mlrval.VKind(result) == mlrval.MT_ERROR)")
        w()
    for f in ("BIF_dhms2sec","BIF_dhms2fsec","BIF_hms2sec","BIF_hms2fsec"):
        w(f"//@ func {f}"); w("//@ requires mlrval.WFT(input1)")
        w("//@ ensures result != nil")
        w()
    return "\n".join(o)
