#!/usr/bin/env python3
# Generates the C08 section of /repo/pkg/bifs/verif_contracts.go: helper classes, type-error
# functions (found by scanning the sources for single-statement wrappers), and table rules.
import re, glob
out=[]
def w(s=""): out.append(s)
src = {f: open(f).read() for f in sorted(glob.glob("/repo/pkg/bifs/*.go")) if not f.endswith("_test.go") and "verif_" not in f}
w("//@ properties C08")
w("// ---- classes of disposition-matrix cells (binary) ----")
K = "mlrval.VKind"
w(f"//@ classdef ret1 = result == input1")
w(f"//@ classdef ret2 = result == input2")
w(f"//@ classdef absent2 = result != nil && {K}(result) == mlrval.MT_ABSENT")
w(f"//@ classdef void2 = result != nil && {K}(result) == mlrval.MT_VOID")
w(f"//@ classdef null2 = result != nil && {K}(result) == mlrval.MT_NULL")
w(f"//@ classdef error2 = result != nil && {K}(result) == mlrval.MT_ERROR")
w(f"//@ classdef int0 = isI(result, 0)")
w(f"//@ classdef float0 = isF(result, 0.0)")
w(f"//@ classdef num2 = mlrval.IsIntVal(result) || mlrval.IsFloatVal(result) || (result != nil && {K}(result) == mlrval.MT_ERROR)")
w(f"//@ classdef pick2 = result == input1 || result == input2")
# the exact integer sum (C10: sums of ints stay ints); used by the accumulators through BIF_plus_binary
w(f"//@ classdef sumII = imp(mlrval.IsIntVal(input1) && mlrval.IsIntVal(input2) && addFits(mlrval.VInt(input1), mlrval.VInt(input2)), mlrval.IsIntVal(result) && mlrval.VInt(result) == mlrval.VInt(input1) + mlrval.VInt(input2))")
w(f"//@ classdef neg2 = imp(mlrval.IsIntVal(input2), isI(result, -old(iv(input2)))) && imp(mlrval.IsFloatVal(input2), isF(result, -old(fv(input2))))")
w("// ---- classes of disposition-vector cells (unary) ----")
w(f"//@ classdef ret1u = result == input1")
w(f"//@ classdef absent1 = result != nil && {K}(result) == mlrval.MT_ABSENT")
w(f"//@ classdef void1 = result != nil && {K}(result) == mlrval.MT_VOID")
w(f"//@ classdef null1 = result != nil && {K}(result) == mlrval.MT_NULL")
w(f"//@ classdef error1 = result != nil && {K}(result) == mlrval.MT_ERROR")
w(f"//@ classdef zero1 = isI(result, 0)")
w()
def fn(name, req, classes, mod="nothing", enc="bv"):
    w(f"//@ func {name}"); w(f"//@ encoding {enc}")
    if req: w(f"//@ requires {req}")
    w(f"//@ modifies {mod}")
    w(f"//@ class {' '.join(classes)}")
    w()
for n,c in (("_absn",["absent2"]),("_null",["null2"]),("_void",["void2"]),("_1___",["ret1"]),("_2___",["ret2"]),("_i0__",["int0","num2"]),("_f0__",["float0","num2"])):
    fn(n, "input1 != nil && input2 != nil", c)
fn("_n2__", "mlrval.WF(input2)", ["neg2"], mod="F:mlrval.Mlrval.printrep F:mlrval.Mlrval.printrepValid")
for n,c in (("_absn1",["absent1"]),("_null1",["null1"]),("_void1",["void1"]),("_1u___",["ret1u"]),("_zero1",["zero1"])):
    fn(n, "input1 != nil", c)
# type-error wrappers
PRV = "F:mlrval.Mlrval.printrep F:mlrval.Mlrval.printrepValid"
for f,s in src.items():
    for m in re.finditer(r"func (\w+)\(input1, input2 \*mlrval\.Mlrval\) \*mlrval\.Mlrval \{\n\treturn mlrval\.FromTypeErrorBinary\(", s):
        fn(m.group(1), "input1 != nil && input2 != nil", ["error2"], mod=PRV)
    for m in re.finditer(r"func (\w+)\(input1 \*mlrval\.Mlrval\) \*mlrval\.Mlrval \{\n\treturn mlrval\.FromTypeErrorUnary\(", s):
        fn(m.group(1), "input1 != nil", ["error1"], mod=PRV)
# kernels (contracted under C07) also carry the class num2
print("\n".join(out))
