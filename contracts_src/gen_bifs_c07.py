#!/usr/bin/env python3
# Generates the C07 section of /repo/pkg/bifs/verif_contracts.go (convenience only: the committed
# contract file is the source of truth read by mlrvc).
out = []
def w(s=""): out.append(s)
A, B = "old(iv(input1))", "old(iv(input2))"
FA, FB = "old(fv(input1))", "old(fv(input2))"
MIN = "-9223372036854775808"

w("//@ properties C07 C08")
w("//@ spec func pII(a, b *mlrval.Mlrval) bool { return mlrval.IsIntVal(a) && mlrval.IsIntVal(b) }")
w("//@ spec func pIF(a, b *mlrval.Mlrval) bool { return mlrval.IsIntVal(a) && mlrval.IsFloatVal(b) }")
w("//@ spec func pFI(a, b *mlrval.Mlrval) bool { return mlrval.IsFloatVal(a) && mlrval.IsIntVal(b) }")
w("//@ spec func pFF(a, b *mlrval.Mlrval) bool { return mlrval.IsFloatVal(a) && mlrval.IsFloatVal(b) }")
w("//@ spec func iv(x *mlrval.Mlrval) int64 { return mlrval.VInt(x) }")
w("//@ spec func fv(x *mlrval.Mlrval) float64 { return mlrval.VFloat(x) }")
w("//@ spec func isI(r *mlrval.Mlrval, v int64) bool { return mlrval.IsIntVal(r) && mlrval.VInt(r) == v }")
w("//@ spec func isF(r *mlrval.Mlrval, v float64) bool { return mlrval.IsFloatVal(r) && sameFloat(mlrval.VFloat(r), v) }")
w()
def fn(name, req, ens, enc="bv", extra=()):
    w(f"//@ func {name}")
    w(f"//@ encoding {enc}")
    if name.startswith(("min_i","max_i")): extra = tuple(extra) + ("class pick2 num2",)
    elif name == "plus_n_ii": extra = tuple(extra) + ("class num2 sumII",)
    elif not name.startswith(("uneg","bitwise_not","bitcount","BIF")): extra = tuple(extra) + ("class num2",)
    w(f"//@ requires {req}")
    w("//@ modifies nothing")
    for e in ens: w(f"//@ ensures {e}")
    for e in extra: w(f"//@ {e}")
    w()

# + - * with overflow to float
for name, fits, op in (("plus_n_ii","addFits","+"),("minus_n_ii","subFits","-"),("times_n_ii","mulFits","*")):
    fn(name, "pII(input1, input2)", [
        f"imp({fits}({A}, {B}), isI(result, {A} {op} {B}))",
        f"imp(!{fits}({A}, {B}), mlrval.IsFloatVal(result))",
        f"imp(mlrval.IsFloatVal(result), sameFloat(mlrval.VFloat(result), float64({A}) {op} float64({B})))",
    ] + ([
        # the mechanism named by the property's anchor: an int result means the double-precision
        # product did not exceed the largest double below 2^63 (the general "never wrapped" clause
        # is post.2, a known finding; FP multiplication bounds are beyond the solvers' reach)
        f"imp(mlrval.IsIntVal(result), !(fabs(float64({A}) * float64({B})) > 9223372036854774784.0))",
    ] if name == "times_n_ii" else []))
# mixed kernels: one IEEE operation on converted operands
ops = {"plus":"+","minus":"-","times":"*","divide":"/","dotplus":"+","dotminus":"-","dottimes":"*","dotdivide":"/"}
for base, op in ops.items():
    fn(f"{base}_f_if", "pIF(input1, input2)", [f"isF(result, float64({A}) {op} {FB})"])
    fn(f"{base}_f_fi", "pFI(input1, input2)", [f"isF(result, {FA} {op} float64({B}))"])
    fn(f"{base}_f_ff", "pFF(input1, input2)", [f"isF(result, {FA} {op} {FB})"])
# divide
fn("divide_n_ii", "pII(input1, input2)", [
    f"imp({B} != 0 && {A} % {B} == 0 && !({A} == {MIN} && {B} == -1), isI(result, {A} / {B}))",
    f"imp({B} == 0 || {A} % {B} != 0, isF(result, float64({A}) / float64({B})))",
    f"imp({A} == {MIN} && {B} == -1, mlrval.IsFloatVal(result))",
])
fn("int_divide_n_ii", "pII(input1, input2)", [
    f"imp({B} != 0 && !({A} == {MIN} && {B} == -1), isI(result, floorDiv({A}, {B})))",
    f"imp({B} == 0, isF(result, float64({A}) / float64({B})))",
    f"imp({A} == {MIN} && {B} == -1, mlrval.IsFloatVal(result))",
])
for t in ("if","fi","ff"):
    x = f"float64({A})" if t[0]=="i" else FA
    y = f"float64({B})" if t[1]=="i" else FB
    fn(f"int_divide_f_{t}", f"p{t.upper()}(input1, input2)", [f"isF(result, ffloor({x} / {y}))"])
    fn(f"modulus_f_{t}", f"p{t.upper()}(input1, input2)", [f"isF(result, {x} - {y}*ffloor({x}/{y}))"])
fn("modulus_i_ii", "pII(input1, input2)", [
    f"imp({B} != 0, mlrval.IsIntVal(result))",
    f"imp({B} != 0, mlrval.VInt(result) == {A} - {B}*floorDiv({A}, {B}))",
    f"imp({B} > 0, 0 <= mlrval.VInt(result) && mlrval.VInt(result) < {B})",
    f"imp({B} < 0, {B} < mlrval.VInt(result) && mlrval.VInt(result) <= 0)",
    f"imp({B} == 0, isF(result, float64({A}) / float64({B})))",
])
# dot operators on ints: two's complement
fn("dotplus_i_ii", "pII(input1, input2)", [f"isI(result, {A} + {B})"])
fn("dotminus_i_ii", "pII(input1, input2)", [f"isI(result, {A} - {B})"])
fn("dottimes_i_ii", "pII(input1, input2)", [f"isI(result, {A} * {B})"])
fn("dotdivide_i_ii", "pII(input1, input2)", [f"imp({B} != 0, isI(result, {A} / {B}))", f"imp({B} == 0, result != nil && mlrval.VKind(result) == mlrval.MT_ERROR)"])
# bits
fn("bitwise_not_i_i", "mlrval.IsIntVal(input1)", [f"isI(result, ^{A})"])
fn("bitcount_i_i", "mlrval.IsIntVal(input1)", [f"isI(result, popcount({A}))"])
fn("bitwise_and_i_ii", "pII(input1, input2)", [f"isI(result, {A} & {B})"])
fn("bitwise_or_i_ii", "pII(input1, input2)", [f"isI(result, {A} | {B})"])
fn("bitwise_xor_i_ii", "pII(input1, input2)", [f"isI(result, {A} ^ {B})"])
inr = f"{B} >= 0 && {B} < 64"
fn("lsh_i_ii", "pII(input1, input2)", [f"isI(result, ite({inr}, {A} << uint64({B}), int64(0)))"])
fn("srsh_i_ii", "pII(input1, input2)", [f"isI(result, ite({inr}, {A} >> uint64({B}), ite({A} < 0, int64(-1), int64(0))))"])
fn("ursh_i_ii", "pII(input1, input2)", [f"isI(result, ite({inr}, int64(uint64({A}) >> uint64({B})), int64(0)))"])
# modular arithmetic helpers (pure int64 functions)
def pure(name, params, ens, req=None):
    w(f"//@ func {name}"); w("//@ encoding bv")
    if req: w(f"//@ requires {req}")
    w("//@ modifies nothing")
    for e in ens: w(f"//@ ensures {e}")
    w()
pure("mlrmod", "a, m", req="m != 0", ens=["imp(m > 0, 0 <= result && result < m)", "imp(m > 0, result == a - m*floorDiv(a, m))"])
pure("imodadd", "a, b, m", req="m != 0", ens=["imp(m > 0, 0 <= result && result < m)", "imp(m > 0 && addFits(a, b), result == (a+b) - m*floorDiv(a+b, m))"])
pure("imodsub", "a, b, m", req="m != 0", ens=["imp(m > 0, 0 <= result && result < m)", "imp(m > 0 && subFits(a, b), result == (a-b) - m*floorDiv(a-b, m))"])
pure("imodmul", "a, b, m", req="m != 0", ens=["imp(m > 0, 0 <= result && result < m)", "imp(m > 0 && mulFits(a, b), result == (a*b) - m*floorDiv(a*b, m))"])
# min / max
fn("min_i_ii", "pII(input1, input2)", ["result == input1 || result == input2", f"isI(result, ite({A} < {B}, {A}, {B}))"])
fn("max_i_ii", "pII(input1, input2)", ["result == input1 || result == input2", f"isI(result, ite({A} > {B}, {A}, {B}))"])
for mm, M in (("min","Min"),("max","Max")):
    fn(f"{mm}_f_ff", "pFF(input1, input2)", [f"isF(result, math.{M}({FA}, {FB}))"])
    fn(f"{mm}_f_fi", "pFI(input1, input2)", [f"isF(result, math.{M}({FA}, float64({B})))"])
    fn(f"{mm}_f_if", "pIF(input1, input2)", [f"isF(result, math.{M}(float64({A}), {FB}))"])
# unary minus
fn("uneg_i_i", "mlrval.IsIntVal(input1)", [f"isI(result, -{A})"])
fn("uneg_f_f", "mlrval.IsFloatVal(input1)", [f"isF(result, -{FA})"])
# pow / roundm: int-ness rule (math.Pow itself is uninterpreted)
fn("pow_f_ii", "pII(input1, input2)", [
    "mlrval.IsIntVal(result) || mlrval.IsFloatVal(result)",
    f"imp(mlrval.IsIntVal(result), float64(mlrval.VInt(result)) == math.Pow(float64({A}), float64({B})))",
    f"imp(mlrval.IsFloatVal(result), sameFloat(mlrval.VFloat(result), math.Pow(float64({A}), float64({B}))))",
])
fn("roundm_f_ii", "pII(input1, input2)", ["mlrval.IsIntVal(result)"])
fn("roundm_f_ff", "pFF(input1, input2)", [f"isF(result, fround({FA}/{FB})*{FB})"])
fn("roundm_f_if", "pIF(input1, input2)", [f"isF(result, fround(float64({A})/{FB})*{FB})"])
fn("roundm_f_fi", "pFI(input1, input2)", [f"isF(result, fround({FA}/float64({B}))*float64({B}))"])
# public modular-arithmetic functions: any three well-formed values => a value, no panic
for f in ("BIF_mod_add", "BIF_mod_sub", "BIF_mod_mul"):
    w(f"//@ func {f}"); w("//@ encoding bv")
    w("//@ requires mlrval.WF(input1) && mlrval.WF(input2) && mlrval.WF(input3)")
    w("//@ ensures result != nil")
    w("//@ ensures imp(old(iv(input3)) == 0 && mlrval.IsIntVal(input1) && mlrval.IsIntVal(input2) && mlrval.IsIntVal(input3), mlrval.VKind(result) == mlrval.MT_ERROR)")
    w()
print("\n".join(out))
