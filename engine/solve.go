package main

import (
	"bytes"
	"context"
	"fmt"
	"os"
	"os/exec"
	"path/filepath"
	"regexp"
	"strings"
	"sync"
	"time"
)

type solverSpec struct {
	name string
	args func(file string, sec int) []string
}

var solvers = []solverSpec{
	{"z3-new", func(f string, s int) []string { return []string{"z3-new", fmt.Sprintf("-T:%d", s), f} }},
	{"cvc5", func(f string, s int) []string {
		return []string{"cvc5", fmt.Sprintf("--tlimit=%d", s*1000), "--produce-models", f}
	}},
	{"z3", func(f string, s int) []string { return []string{"z3", fmt.Sprintf("-T:%d", s), f} }},
}

type solveOut struct {
	solver string
	answer string // sat unsat unknown timeout error
	out    string
	secs   float64
}

func runSolver(ctx context.Context, sp solverSpec, file string, sec int) solveOut {
	t0 := time.Now()
	argv := sp.args(file, sec)
	cctx, cancel := context.WithTimeout(ctx, time.Duration(sec+2)*time.Second)
	defer cancel()
	cmd := exec.CommandContext(cctx, argv[0], argv[1:]...)
	var buf bytes.Buffer
	cmd.Stdout = &buf
	cmd.Stderr = &buf
	cmd.Run()
	out := buf.String()
	// solvers may print warnings (e.g. about a dropped quantifier pattern) before the answer
	var kept []string
	for _, ln := range strings.Split(out, "\n") {
		if strings.HasPrefix(ln, "WARNING:") {
			continue
		}
		kept = append(kept, ln)
	}
	out = strings.Join(kept, "\n")
	first := strings.TrimSpace(strings.SplitN(out, "\n", 2)[0])
	ans := "unknown"
	switch first {
	case "sat", "unsat":
		ans = first
	case "timeout":
		ans = "timeout"
	case "unknown":
		ans = "unknown"
	default:
		if cctx.Err() != nil {
			ans = "timeout"
		} else if strings.Contains(out, "error") || strings.Contains(out, "Error") {
			ans = "error"
		}
	}
	return solveOut{solver: sp.name, answer: ans, out: out, secs: time.Since(t0).Seconds()}
}

var smtDir = "/verif/build/smt"

func oblFile(name string) string {
	s := sym(name)
	if len(s) > 150 {
		s = s[:150] + fmt.Sprintf("_%x", hashStr(name))
	}
	return filepath.Join(smtDir, s+".smt2")
}

func hashStr(s string) uint32 {
	var h uint32 = 2166136261
	for i := 0; i < len(s); i++ {
		h = (h ^ uint32(s[i])) * 16777619
	}
	return h
}

// solve one obligation with the portfolio. budget in seconds.
func solveObligation(c *Ctx, o *Obligation, budget int) {
	if len(o.Cases) > 1 && !o.ExpectSat && os.Getenv("MLRVC_NOCASES") == "" {
		solveCases(c, o, budget)
		return
	}
	solveOne(c, o, budget)
}

// solveCases proves an exit obligation return site by return site. All cases proved: proved.
// A refuted case: refuted, with that case's model. Otherwise the merged formulation is tried.
func solveCases(c *Ctx, o *Obligation, budget int) {
	t0 := time.Now()
	all := true
	for k, cs := range o.Cases {
		sub := &Obligation{Name: fmt.Sprintf("%s@ret%d", o.Name, k+1), Kind: o.Kind, Guard: cs.Guard, Goal: cs.Goal, Pos: o.Pos, Func: o.Func, Obs: o.Obs}
		solveOne(c, sub, budget)
		if sub.Result == "refuted" {
			o.Result, o.Solver, o.Model, o.RawOut, o.File = "refuted", sub.Solver+fmt.Sprintf("+ret%d/%d", k+1, len(o.Cases)), sub.Model, sub.RawOut, sub.File
			o.TimeS = time.Since(t0).Seconds()
			return
		}
		if sub.Result != "proved" {
			all = false
			break
		}
	}
	if all {
		o.Result, o.Solver, o.TimeS = "proved", fmt.Sprintf("cases(%d)", len(o.Cases)), time.Since(t0).Seconds()
		o.File = oblFile(o.Name + "@ret1")
		return
	}
	solveOne(c, o, budget)
	o.TimeS = time.Since(t0).Seconds()
}

func solveOne(c *Ctx, o *Obligation, budget int) {
	text := c.emitWith(o, o.Obs)
	file := oblFile(o.Name)
	os.MkdirAll(filepath.Dir(file), 0o755)
	tail := ""
	if !o.ExpectSat && len(o.Obs) > 0 {
		var ts []string
		for _, ob := range o.Obs {
			ts = append(ts, ob.Term)
		}
		tail = "(get-value (" + strings.Join(ts, " ") + "))\n"
	}
	os.WriteFile(file, []byte(text+tail), 0o644)
	o.File = file
	t0 := time.Now()
	// trivial cases without a solver
	if !o.ExpectSat && (o.Goal == "true" || o.Guard == "false") {
		o.Result, o.Solver, o.TimeS = "proved", "trivial", 0
		return
	}
	finish := func(r solveOut) {
		o.Solver = r.solver
		o.TimeS = time.Since(t0).Seconds()
		o.RawOut = r.out
		if len(o.RawOut) > 20000 {
			o.RawOut = o.RawOut[:20000] + "\n...[truncated]"
		}
		switch {
		case o.ExpectSat && r.answer == "sat":
			o.Result = "sat-ok"
		case o.ExpectSat && r.answer == "unsat":
			o.Result = "vacuous"
		case !o.ExpectSat && r.answer == "unsat":
			o.Result = "proved"
		case !o.ExpectSat && r.answer == "sat":
			o.Result = "refuted"
			o.Model = parseValues(r.out, o.Obs)
		default:
			o.Result = "unknown"
		}
	}
	// expensive FP operations: first with them uninterpreted (a proof under this over-approximation
	// is a proof); exact semantics only if that fails
	if !o.ExpectSat && (strings.Contains(text, "(fmulX ") || strings.Contains(text, "(fdivX ") || strings.Contains(text, "(f2sX ") || strings.Contains(text, "(s2fX ")) {
		for _, level := range []int{2, 1} {
			atext := c.emitFP(o, nil, level)
			afile := strings.TrimSuffix(file, ".smt2") + fmt.Sprintf(".fpabs%d.smt2", level)
			os.WriteFile(afile, []byte(atext), 0o644)
			r := runSolver(context.Background(), solvers[0], afile, min(budget, 5))
			if r.answer != "unsat" {
				r = runSolver(context.Background(), solvers[1], afile, min(budget, 5))
			}
			if r.answer == "unsat" {
				r.solver += fmt.Sprintf("+fp-abstract%d", level)
				file = afile
				finish(r)
				return
			}
		}
	}
	// floating-point goals: cvc5 is often the only solver that answers quickly, so race at once
	if !strings.Contains(strings.SplitN(text, "(declare-const", 2)[len(strings.SplitN(text, "(declare-const", 2))-1], "fp.") && !strings.Contains(text, "(fmulX ") && !strings.Contains(text, "(fdivX ") {
		first := min(budget, 2)
		r := runSolver(context.Background(), solvers[0], file, first)
		if r.answer == "sat" || r.answer == "unsat" {
			finish(r)
			return
		}
	}
	race := func(sec int) (solveOut, bool) {
		ctx, cancel := context.WithCancel(context.Background())
		defer cancel()
		ch := make(chan solveOut, len(solvers))
		for _, sp := range solvers {
			go func(sp solverSpec) { ch <- runSolver(ctx, sp, file, sec) }(sp)
		}
		var last solveOut
		for range solvers {
			r := <-ch
			if r.answer == "sat" || r.answer == "unsat" {
				return r, true
			}
			if last.solver == "" || r.answer == "timeout" {
				last = r
			}
		}
		return last, false
	}
	// a short race first when the goal can be split into conjuncts: splitting usually beats waiting
	var pieces []Sx
	if !o.ExpectSat && !o.noSplit {
		pieces = splitGoal(c, o.Goal)
	}
	firstBudget := budget
	if len(pieces) > 1 && budget > 6 {
		firstBudget = 6
	}
	last, decided := race(firstBudget)
	if decided {
		finish(last)
		return
	}
	last.out = "no solver decided within " + fmt.Sprint(budget) + "s; last: " + last.solver + " " + last.answer + "\n" + last.out
	// goal splitting: a conjunction (possibly under a quantifier or an implication) that the
	// solvers cannot decide as a whole is proved conjunct by conjunct
	if !o.ExpectSat && !o.noSplit {
		if len(pieces) > 1 {
			allProved := true
			total := 0.0
			for i, pc := range pieces {
				sub := &Obligation{Name: fmt.Sprintf("%s~%d", o.Name, i+1), Kind: o.Kind, Guard: o.Guard, Goal: pc, Pos: o.Pos, Func: o.Func, noSplit: true}
				solveObligation(c, sub, budget)
				total += sub.TimeS
				if sub.Result != "proved" {
					allProved = false
					break
				}
			}
			if allProved {
				o.Result, o.Solver, o.TimeS = "proved", fmt.Sprintf("split(%d)", len(pieces)), time.Since(t0).Seconds()
				o.RawOut = fmt.Sprintf("proved as %d conjuncts", len(pieces))
				return
			}
		}
	}
	if firstBudget < budget {
		if r, ok := race(budget); ok {
			finish(r)
			return
		}
	}
	finish(last)
}

// splitGoal: top-level conjuncts of a goal, looking through definitions, implications and
// universal quantifiers
func splitGoal(c *Ctx, goal Sx) []Sx {
	expand := func(t Sx) Sx {
		for k := 0; k < 4; k++ {
			d, ok := c.declIdx[t]
			if !ok || !strings.HasPrefix(d.text, "(define-fun "+t+" () Bool ") {
				break
			}
			t = strings.TrimSuffix(strings.TrimPrefix(d.text, "(define-fun "+t+" () Bool "), ")")
		}
		return t
	}
	var split func(n *sexp, depth int) []Sx
	split = func(n *sexp, depth int) []Sx {
		if n.list == nil {
			if depth < 6 {
				if e := expand(n.atom); e != n.atom {
					if ss := parseSexps(e); len(ss) == 1 {
						return split(ss[0], depth+1)
					}
				}
			}
			return []Sx{n.String()}
		}
		if len(n.list) == 0 {
			return []Sx{n.String()}
		}
		switch n.list[0].atom {
		case "and":
			var out []Sx
			for _, ch := range n.list[1:] {
				out = append(out, split(ch, depth)...)
			}
			return out
		case "=>":
			if len(n.list) == 3 {
				var out []Sx
				for _, pc := range split(n.list[2], depth) {
					out = append(out, "(=> "+n.list[1].String()+" "+pc+")")
				}
				return out
			}
		case "forall":
			if len(n.list) == 3 {
				body := n.list[2]
				if len(body.list) >= 2 && body.list[0].atom == "!" {
					body = body.list[1]
				}
				pcs := split(body, depth)
				if len(pcs) > 1 {
					var out []Sx
					bv := ""
					if len(n.list[1].list) == 1 && len(n.list[1].list[0].list) == 2 {
						bv = n.list[1].list[0].list[0].atom
					}
					for _, pc := range pcs {
						if pat := selectPattern(pc, bv); bv != "" && pat != "" {
							out = append(out, "(forall "+n.list[1].String()+" (! "+pc+" :pattern ("+pat+")))")
						} else {
							out = append(out, "(forall "+n.list[1].String()+" "+pc+")")
						}
					}
					return out
				}
			}
		}
		return []Sx{n.String()}
	}
	ss := parseSexps(expand(goal))
	if len(ss) != 1 {
		return nil
	}
	return split(ss[0], 0)
}

// parseValues reads the (get-value ...) answer following "sat"
func parseValues(out string, obs []obsTerm) map[string]string {
	m := map[string]string{}
	i := strings.Index(out, "(")
	if i < 0 {
		return m
	}
	ss := parseSexps(out[i:])
	if len(ss) == 0 || ss[0].list == nil {
		return m
	}
	for k, pair := range ss[0].list {
		if k < len(obs) && len(pair.list) == 2 {
			m[obs[k].Label] = pair.list[1].String()
		}
	}
	return m
}

var modelRe = regexp.MustCompile(`\(define-fun\s+(\S+)\s+\(\)\s+(\([^()]*\)|\S+)\s+((?:\([^()]*(?:\([^()]*\)[^()]*)*\))|[^()\s]+)\)`)

func parseModel(out string) map[string]string {
	m := map[string]string{}
	for _, g := range modelRe.FindAllStringSubmatch(out, -1) {
		m[g[1]] = strings.Join(strings.Fields(g[3]), " ")
	}
	return m
}

// solveBatch: many small ground obligations of one context in a single incremental solver run
func solveBatch(c *Ctx, obls []*Obligation, budget int) {
	c.computeDeps()
	var b strings.Builder
	b.WriteString(c.header())
	for _, d := range c.decls {
		b.WriteString(d.text + "\n")
	}
	for _, o := range obls {
		fmt.Fprintf(&b, "(push 1)\n(assert %s)\n(assert (not %s))\n(check-sat)\n(pop 1)\n", o.Guard, o.Goal)
	}
	file := oblFile(obls[0].Func + "#batch")
	os.MkdirAll(filepath.Dir(file), 0o755)
	os.WriteFile(file, []byte(b.String()), 0o644)
	t0 := time.Now()
	cmd := exec.Command("z3-new", fmt.Sprintf("-T:%d", budget*3), file)
	var buf bytes.Buffer
	cmd.Stdout, cmd.Stderr = &buf, &buf
	cmd.Run()
	lines := strings.Split(strings.TrimSpace(buf.String()), "\n")
	per := time.Since(t0).Seconds() / float64(len(obls))
	for i, o := range obls {
		o.File, o.Solver, o.TimeS = file, "z3-new", per
		ans := ""
		if i < len(lines) {
			ans = strings.TrimSpace(lines[i])
		}
		switch ans {
		case "unsat":
			o.Result = "proved"
		case "sat":
			o.Result = "refuted"
			o.RawOut = "sat (cell " + o.Name + " does not satisfy " + o.Pos + ")"
		default:
			// fall back to the ordinary portfolio for this one
			solveObligation(c, o, budget)
		}
	}
}

// solveFast: a first pass over the plain obligations of one function in a single incremental
// z3 run (one process, the definitions parsed once, a short per-query timeout). Only "unsat"
// answers are accepted; everything else goes through the ordinary per-obligation path, which
// produces models, races the solvers and splits goals.
func solveFast(c *Ctx, obls []*Obligation, budget int) {
	c.computeDeps()
	var b strings.Builder
	b.WriteString(c.header())
	b.WriteString("(set-option :timeout 1500)\n")
	for _, d := range c.decls {
		b.WriteString(d.text + "\n")
	}
	for _, o := range obls {
		fmt.Fprintf(&b, "(push 1)\n(assert %s)\n(assert (not %s))\n(check-sat)\n(pop 1)\n", o.Guard, o.Goal)
	}
	file := oblFile(obls[0].Func + "#fast")
	os.MkdirAll(filepath.Dir(file), 0o755)
	os.WriteFile(file, []byte(b.String()), 0o644)
	t0 := time.Now()
	ctx, cancel := context.WithTimeout(context.Background(), time.Duration(2*len(obls)+20)*time.Second)
	defer cancel()
	cmd := exec.CommandContext(ctx, "z3-new", file)
	var buf bytes.Buffer
	cmd.Stdout, cmd.Stderr = &buf, &buf
	cmd.Run()
	var answers []string
	for _, ln := range strings.Split(buf.String(), "\n") {
		switch strings.TrimSpace(ln) {
		case "sat", "unsat", "unknown", "timeout":
			answers = append(answers, strings.TrimSpace(ln))
		}
	}
	per := time.Since(t0).Seconds() / float64(len(obls))
	for i, o := range obls {
		if len(answers) == len(obls) && answers[i] == "unsat" {
			o.File, o.Solver, o.TimeS, o.Result = file, "z3-new+batch", per, "proved"
			continue
		}
		solveObligation(c, o, budget)
	}
}

func solveAll(results []*FuncResult, budget int, workers int, filter func(o *Obligation) bool) {
	type job struct {
		c     *Ctx
		o     *Obligation
		batch []*Obligation
		fast  []*Obligation
	}
	var jobs []job
	for _, r := range results {
		var batch, fast []*Obligation
		for _, o := range r.Obls {
			if filter == nil || filter(o) {
				if o.Kind == "table" && !strings.Contains(o.Name, "@") {
					batch = append(batch, o)
				} else if !o.ExpectSat && len(o.Cases) == 0 && !strings.Contains(o.Name, "@") && os.Getenv("MLRVC_FAST") != "" {
					fast = append(fast, o)
				} else {
					jobs = append(jobs, job{c: r.Ctx, o: o})
				}
			}
		}
		if len(batch) > 0 {
			jobs = append(jobs, job{c: r.Ctx, batch: batch})
		}
		// chunks of at most 40 so that one slow function does not serialise the run
		for len(fast) > 0 {
			n := len(fast)
			if n > 40 {
				n = 40
			}
			if n < 3 {
				for _, o := range fast[:n] {
					jobs = append(jobs, job{c: r.Ctx, o: o})
				}
			} else {
				jobs = append(jobs, job{c: r.Ctx, fast: fast[:n]})
			}
			fast = fast[n:]
		}
	}
	var wg sync.WaitGroup
	ch := make(chan job)
	for i := 0; i < workers; i++ {
		wg.Add(1)
		go func() {
			defer wg.Done()
			for j := range ch {
				if j.batch != nil {
					solveBatch(j.c, j.batch, budget)
				} else if j.fast != nil {
					solveFast(j.c, j.fast, budget)
				} else {
					solveObligation(j.c, j.o, budget)
				}
			}
		}()
	}
	for _, j := range jobs {
		ch <- j
	}
	close(ch)
	wg.Wait()
}
