package main

import (
	"fmt"
	"go/ast"
	"go/constant"
	"go/token"
	"go/types"
	"strings"

	"golang.org/x/tools/go/ssa"
)

// ---------------------------------------------------------------------------------------------
// Compilation of contract expressions (typed Go ASTs) to SMT.
// ---------------------------------------------------------------------------------------------

type Env struct {
	callArgs []Val // arguments of the call being asserted about (callsite clauses)
	qdepth   int // > 0 inside a quantifier body: terms may mention bound variables and must not be hoisted into definitions
	havocked map[string]bool // keys havocked by the contract call whose ensures is being assumed
	tr    *Translator
	vars  map[string]Val
	st    *State
	old   *State
	info  *types.Info
	depth int
	ret   *Val // set when evaluating spec function bodies
}

func (e *Env) with(vars map[string]Val) *Env {
	n := *e
	n.vars = map[string]Val{}
	for k, v := range e.vars {
		n.vars[k] = v
	}
	for k, v := range vars {
		n.vars[k] = v
	}
	return &n
}

func (tr *Translator) specBool(cl *Clause, env *Env) Sx {
	v := tr.specTerm(cl, env)
	return v.t
}

func (tr *Translator) specTerm(cl *Clause, env *Env) Val {
	if cl.Expr == nil {
		tr.c.unsupp("clause not type-checked: %s", cl.Text)
		return Val{t: "true"}
	}
	e := *env
	e.info = cl.Info
	v := e.expr(cl.Expr)
	if strings.ContainsAny(v.t, " (") && v.typ != nil && v.addr == nil {
		v.t = tr.c.define("spec_"+cl.Kind, tr.c.sortOf(v.typ), v.t)
	}
	return v
}

func (e *Env) typeOf(x ast.Expr) types.Type {
	if tv, ok := e.info.Types[x]; ok && tv.Type != nil {
		return tv.Type
	}
	if id, ok := x.(*ast.Ident); ok {
		if o := e.info.Uses[id]; o != nil {
			return o.Type()
		}
		if o := e.info.Defs[id]; o != nil {
			return o.Type()
		}
	}
	return types.Typ[types.Invalid]
}

func (e *Env) isPrelude(id *ast.Ident) bool {
	o := e.info.Uses[id]
	if o == nil {
		return false
	}
	if _, ok := o.(*types.Func); !ok {
		return false
	}
	pos := e.tr.l.Prog.Fset.Position(o.Pos())
	if !strings.HasSuffix(pos.Filename, "verif_synth_gen.go") {
		return false
	}
	for _, n := range preludeNames {
		if n == id.Name {
			return true
		}
	}
	return false
}

func (e *Env) expr(x ast.Expr) Val {
	tr := e.tr
	c := tr.c
	// constants first
	if tv, ok := e.info.Types[x]; ok && tv.Value != nil && tv.Type != nil {
		t := tv.Type
		if b, ok := t.(*types.Basic); ok && b.Info()&types.IsUntyped != 0 {
			t = types.Default(t)
		}
		return tr.constVal(t, tv.Value)
	}
	switch n := x.(type) {
	case *ast.ParenExpr:
		return e.expr(n.X)
	case *ast.Ident:
		if v, ok := e.vars[n.Name]; ok {
			return v
		}
		switch n.Name {
		case "true":
			return Val{t: "true", typ: types.Typ[types.Bool]}
		case "false":
			return Val{t: "false", typ: types.Typ[types.Bool]}
		case "nil":
			t := e.typeOf(n)
			return Val{t: c.zeroOf(t), typ: t}
		}
		o := e.info.Uses[n]
		switch ov := o.(type) {
		case *types.Var:
			if ov.Pkg() != nil && ov.Parent() == ov.Pkg().Scope() {
				return e.globalRead(ov)
			}
		case *types.Func:
			if f := tr.l.funcOfObj(ov); f != nil {
				return Val{t: c.funcID(f), fn: f, typ: ov.Type()}
			}
		case *types.Nil:
			t := e.typeOf(n)
			return Val{t: c.zeroOf(t), typ: t}
		}
		c.unsupp("spec: unbound identifier %s", n.Name)
		return Val{t: c.declConst("unbound_"+n.Name, c.sortOf(e.typeOf(n))), typ: e.typeOf(n)}
	case *ast.UnaryExpr:
		if n.Op == token.AND {
			if id, ok := n.X.(*ast.Ident); ok {
				if r, ok := e.vars["&"+id.Name]; ok {
					return r
				}
			}
		}
		v := e.expr(n.X)
		t := e.typeOf(n)
		switch n.Op {
		case token.NOT:
			return Val{t: not(v.t), typ: t}
		case token.SUB:
			if k, ok := typeIntKind(t); ok {
				return Val{t: c.it.neg(k, v.t), typ: t}
			}
			return Val{t: sx("fp.neg", v.t), typ: t}
		case token.ADD:
			return v
		case token.AND:
			// address of an address-taken local: its cell reference
			if id, ok := n.X.(*ast.Ident); ok {
				if r, ok := e.vars["&"+id.Name]; ok {
					return r
				}
			}
		case token.XOR:
			k, _ := typeIntKind(t)
			return Val{t: c.it.bnot(k, v.t), typ: t}
		}
	case *ast.BinaryExpr:
		switch n.Op {
		case token.LAND:
			return Val{t: and(e.expr(n.X).t, e.expr(n.Y).t), typ: types.Typ[types.Bool]}
		case token.LOR:
			return Val{t: or(e.expr(n.X).t, e.expr(n.Y).t), typ: types.Typ[types.Bool]}
		}
		a, b := e.expr(n.X), e.expr(n.Y)
		xt, yt := e.typeOf(n.X), e.typeOf(n.Y)
		// nil comparisons: take the type of the other side
		if isNilType(xt) {
			xt = yt
			a = Val{t: c.zeroOf(yt), typ: yt}
		}
		if isNilType(yt) {
			yt = xt
			b = Val{t: c.zeroOf(xt), typ: xt}
		}
		if bx, ok := xt.(*types.Basic); ok && bx.Info()&types.IsUntyped != 0 {
			xt = yt
		}
		// In contracts, + - * on Go's type int (lengths, positions, counts) is mathematical: no
		// wrap-around in the int encoding. Machine arithmetic is specified with int64/uint64.
		if c.it.mode == ModeInt && isPlainInt(e.typeOf(n)) {
			switch n.Op {
			case token.ADD:
				return Val{t: c.it.addNW(a.t, b.t), typ: e.typeOf(n)}
			case token.SUB:
				if b.t == "0" {
					return Val{t: a.t, typ: e.typeOf(n)}
				}
				return Val{t: sx("-", a.t, b.t), typ: e.typeOf(n)}
			case token.MUL:
				return Val{t: sx("*", a.t, b.t), typ: e.typeOf(n)}
			}
		}
		return tr.binopT(e.st, n.Op, xt, yt, e.typeOf(n), a, b, func(goal Sx, kind string) {})
	case *ast.CallExpr:
		return e.call(n)
	case *ast.SelectorExpr:
		// package-qualified?
		if id, ok := n.X.(*ast.Ident); ok {
			if _, isPkg := e.info.Uses[id].(*types.PkgName); isPkg {
				o := e.info.Uses[n.Sel]
				switch ov := o.(type) {
				case *types.Var:
					return e.globalRead(ov)
				case *types.Func:
					if f := tr.l.funcOfObj(ov); f != nil {
						return Val{t: c.funcID(f), fn: f, typ: ov.Type()}
					}
				}
				c.unsupp("spec: qualified identifier %s.%s", id.Name, n.Sel.Name)
				return Val{t: c.declConst("q", c.sortOf(e.typeOf(n))), typ: e.typeOf(n)}
			}
		}
		sel := e.info.Selections[n]
		if sel == nil || sel.Kind() != types.FieldVal {
			c.unsupp("spec: selector %s", n.Sel.Name)
			return Val{t: c.declConst("sel", c.sortOf(e.typeOf(n))), typ: e.typeOf(n)}
		}
		base := e.expr(n.X)
		bt := e.typeOf(n.X)
		// walk the (possibly embedded) field path
		for _, idx := range sel.Index() {
			if p, ok := bt.Underlying().(*types.Pointer); ok {
				a := tr.addrOf(base, bt)
				stt := p.Elem().Underlying().(*types.Struct)
				fa := &Addr{key: a.key + "." + stt.Field(idx).Name(), idxs: a.idxs, typ: stt.Field(idx).Type()}
				base = tr.load(e.st, fa)
				bt = stt.Field(idx).Type()
			} else if base.addr != nil {
				stt := bt.Underlying().(*types.Struct)
				fa := &Addr{key: base.addr.key + "." + stt.Field(idx).Name(), idxs: base.addr.idxs, typ: stt.Field(idx).Type()}
				base = tr.load(e.st, fa)
				bt = stt.Field(idx).Type()
			} else {
				stt := bt.Underlying().(*types.Struct)
				s := c.sortOf(bt)
				base = Val{t: sx(s+"."+sym(stt.Field(idx).Name()), base.t), typ: stt.Field(idx).Type()}
				bt = stt.Field(idx).Type()
			}
		}
		base.typ = bt
		return e.ranged(base)
	case *ast.StarExpr:
		v := e.expr(n.X)
		a := tr.addrOf(v, e.typeOf(n.X))
		return e.ranged(tr.load(e.st, a))
	case *ast.IndexExpr:
		// generic instantiation used as function value is handled in call()
		base := e.expr(n.X)
		bt := e.typeOf(n.X)
		it := c.it
		switch u := bt.Underlying().(type) {
		case *types.Basic:
			idx := e.intIndex(n.Index)
			return Val{t: sx("sat", base.t, idx), typ: e.typeOf(n)}
		case *types.Slice:
			idx := e.intIndex(n.Index)
			a := &Addr{key: "E:" + shortType(u.Elem()), idxs: []Sx{sx("sl_arr", base.t), it.addNW(sx("sl_off", base.t), idx)}, typ: u.Elem()}
			v := tr.load(e.st, a)
			if isStringType(u.Elem()) && e.qdepth == 0 && v.t != "" {
				// every string value has a length in [0, 2^40]
				nm := c.define("sld", "Str", v.t)
				c.axiom(nm, and(it.le(I64, it.iconst(0), sx("slen", nm)), it.le(I64, sx("slen", nm), it.iconst(1<<40))))
				v.t = nm
			}
			return v
		case *types.Array:
			idx := e.intIndex(n.Index)
			if base.addr != nil {
				a := &Addr{key: base.addr.key + "[]", idxs: append(append([]Sx{}, base.addr.idxs...), idx), typ: u.Elem(), gl: base.addr.gl}
				if _, nested := u.Elem().Underlying().(*types.Array); nested {
					return Val{addr: a, typ: u.Elem(), gl: base.gl} // keep descending: load at the leaf only
				}
				return tr.load(e.st, a)
			}
			return Val{t: sx("select", base.t, idx), typ: u.Elem()}
		case *types.Map:
			k := e.expr(n.Index)
			dom, val := tr.mapKeys(u)
			d := sx("select", sx("select", tr.memGet(e.st, dom), base.t), k.t)
			v := sx("select", sx("select", tr.memGet(e.st, val), base.t), k.t)
			return Val{t: ite(d, v, c.zeroOf(u.Elem())), typ: u.Elem()}
		}
	case *ast.SliceExpr:
		base := e.expr(n.X)
		bt := e.typeOf(n.X)
		it := c.it
		lo := it.iconst(0)
		if n.Low != nil {
			lo = e.intIndex(n.Low)
		}
		if isStringType(bt) {
			hi := sx("slen", base.t)
			if n.High != nil {
				hi = e.intIndex(n.High)
			}
			return Val{t: tr.substr(base.t, lo, hi), typ: bt}
		}
		if _, ok := bt.Underlying().(*types.Slice); ok {
			hi := sx("sl_len", base.t)
			if n.High != nil {
				hi = e.intIndex(n.High)
			}
			return Val{t: sx("mk_slice", sx("sl_arr", base.t), it.add(I64, sx("sl_off", base.t), lo), it.sub(I64, hi, lo), it.sub(I64, sx("sl_cap", base.t), lo)), typ: bt}
		}
	case *ast.TypeAssertExpr:
		v := e.expr(n.X)
		t := e.typeOf(n)
		_, sel := c.ifaceCon(t)
		return Val{t: sx(sel, v.t), typ: t}
	}
	c.unsupp("spec: expression %T", x)
	t := e.typeOf(x)
	return Val{t: c.declConst("specx", c.sortOf(t)), typ: t}
}

// selectPattern: a trigger for a bounded quantifier: the first subterm (select X bv) that
// reads an array exactly at the bound variable and does not mention it elsewhere ("a[i]")
func selectPattern(body Sx, bv string) Sx {
	ss := parseSexps(body)
	var found *sexp
	var walk func(n *sexp)
	mentions := func(n *sexp) bool {
		return strings.Contains(" "+strings.NewReplacer("(", " ", ")", " ").Replace(n.String())+" ", " "+bv+" ")
	}
	walk = func(n *sexp) {
		if found != nil || n.list == nil {
			return
		}
		if len(n.list) == 3 && n.list[0].atom == "select" && n.list[2].atom == bv && !mentions(n.list[1]) {
			// quantifier-free array term only
			if !strings.Contains(n.list[1].String(), "forall") {
				found = n
				return
			}
		}
		for _, ch := range n.list {
			walk(ch)
		}
	}
	for _, n := range ss {
		walk(n)
	}
	if found == nil {
		return ""
	}
	return found.String()
}

func isPlainInt(t types.Type) bool {
	b, ok := t.(*types.Basic)
	return ok && (b.Kind() == types.Int || b.Kind() == types.UntypedInt)
}

func isNilType(t types.Type) bool {
	b, ok := t.(*types.Basic)
	return ok && b.Kind() == types.UntypedNil
}

func (e *Env) intIndex(x ast.Expr) Sx {
	v := e.expr(x)
	k, ok := typeIntKind(e.typeOf(x))
	if !ok {
		return v.t
	}
	return e.tr.c.it.conv(k, I64, v.t)
}

// ranged: a value read from the heap by a specification has the range of its Go type (a machine
// integer in the int encoding, a string length in [0, 2^40]); only outside quantifiers, where
// the term is closed and can carry an axiom.
func (e *Env) ranged(v Val) Val {
	if e.qdepth != 0 || v.t == "" || v.typ == nil || v.addr != nil || len(v.tup) > 0 {
		return v
	}
	c := e.tr.c
	switch v.typ.Underlying().(type) {
	case *types.Slice, *types.Pointer, *types.Map:
		// a slice header or pointer read from the heap is well-formed and points below the
		// allocation frontier of the state it is read in (exactly what a load in the code assumes)
		nm := c.define("ldr", c.sortOf(v.typ), v.t)
		v2 := v
		v2.t = nm
		if facts := e.tr.typeFacts(e.st, v2); len(facts) > 0 {
			c.axiom(nm, and(facts...))
		}
		return v2
	}
	b, ok := v.typ.Underlying().(*types.Basic)
	if !ok {
		return v
	}
	if k, isInt := basicIntKind(b); isInt {
		if f := c.it.inRange(k, "x"); f == "true" {
			return v
		}
		nm := c.define("ld", c.sortOf(v.typ), v.t)
		c.axiom(nm, c.it.inRange(k, nm))
		v.t = nm
		return v
	}
	if isStringType(v.typ) {
		nm := c.define("sld", "Str", v.t)
		c.axiom(nm, and(c.it.le(I64, c.it.iconst(0), sx("slen", nm)), c.it.le(I64, sx("slen", nm), c.it.iconst(1<<40))))
		v.t = nm
	}
	return v
}

func (e *Env) globalRead(ov *types.Var) Val {
	tr := e.tr
	key := "G:" + strings.TrimPrefix(strings.TrimPrefix(ov.Pkg().Path(), modPath+"/pkg/"), modPath+"/") + "." + ov.Name()
	a := &Addr{key: key, typ: ov.Type()}
	if _, isArr := ov.Type().Underlying().(*types.Array); isArr {
		// keep the address: indexing then reads the same per-dimension heap keys as the code does
		return Val{addr: a, typ: ov.Type(), gl: tr.l.globalByKey(key)}
	}
	return tr.load(e.st, a)
}

func (l *Loaded) funcOfObj(o *types.Func) *ssa.Function {
	if o.Pkg() == nil {
		return nil
	}
	// match by package path and name (objects may come from the same load, so FuncValue works)
	if f := l.Prog.FuncValue(o); f != nil {
		return f
	}
	return nil
}

func (e *Env) quant(kind string, sort Sx, bound string, typ types.Type, rng func(v Sx) Sx, body *ast.FuncLit) Val {
	c := e.tr.c
	c.fresh++
	bv := fmt.Sprintf("%s!q%d", sym(bound), c.fresh)
	ne := e.with(map[string]Val{bound: {t: bv, typ: typ}})
	ne.qdepth = e.qdepth + 1
	var bt Sx
	if len(body.Body.List) == 1 {
		if r, ok := body.Body.List[0].(*ast.ReturnStmt); ok {
			bt = ne.expr(r.Results[0]).t
		}
	}
	if bt == "" {
		c.unsupp("spec: quantifier body must be a single return")
		bt = "true"
	}
	g := rng(bv)
	if kind == "forall" {
		if pat := selectPattern(bt, bv); pat != "" {
			return Val{t: fmt.Sprintf("(forall ((%s %s)) (! %s :pattern (%s)))", bv, sort, imp(g, bt), pat), typ: types.Typ[types.Bool]}
		}
		return Val{t: fmt.Sprintf("(forall ((%s %s)) %s)", bv, sort, imp(g, bt)), typ: types.Typ[types.Bool]}
	}
	return Val{t: fmt.Sprintf("(exists ((%s %s)) %s)", bv, sort, and(g, bt)), typ: types.Typ[types.Bool]}
}

func (e *Env) call(n *ast.CallExpr) Val {
	tr := e.tr
	c := tr.c
	it := c.it
	rt := e.typeOf(n)
	// conversion?
	if tv, ok := e.info.Types[n.Fun]; ok && tv.IsType() {
		v := e.expr(n.Args[0])
		return tr.convertT(e.typeOf(n.Args[0]), tv.Type, v)
	}
	fun := n.Fun
	var typeArgs []types.Type
	if ix, ok := fun.(*ast.IndexExpr); ok {
		if tv, ok := e.info.Types[ix.Index]; ok && tv.IsType() {
			typeArgs = append(typeArgs, tv.Type)
			fun = ix.X
		}
	}
	if id, ok := fun.(*ast.Ident); ok {
		// Go builtins
		if _, isB := e.info.Uses[id].(*types.Builtin); isB {
			switch id.Name {
			case "len":
				v := e.expr(n.Args[0])
				at := e.typeOf(n.Args[0])
				switch u := at.Underlying().(type) {
				case *types.Basic:
					return Val{t: sx("slen", v.t), typ: rt}
				case *types.Slice:
					return Val{t: sx("sl_len", v.t), typ: rt}
				case *types.Array:
					return Val{t: it.iconst(u.Len()), typ: rt}
				case *types.Map:
					return Val{t: sx("select", tr.memGet(e.st, tr.mapLenKey(u)), v.t), typ: rt}
				}
			case "cap":
				v := e.expr(n.Args[0])
				return Val{t: sx("sl_cap", v.t), typ: rt}
			}
			c.unsupp("spec: builtin %s", id.Name)
			return Val{t: c.declConst("b", c.sortOf(rt)), typ: rt}
		}
		if e.isPrelude(id) {
			return e.prelude(id.Name, n, typeArgs, rt)
		}
	}
	// spec function (same or other package)
	var fobj *types.Func
	switch f := fun.(type) {
	case *ast.Ident:
		fobj, _ = e.info.Uses[f].(*types.Func)
	case *ast.SelectorExpr:
		fobj, _ = e.info.Uses[f.Sel].(*types.Func)
	}
	if fobj != nil && fobj.Pkg() != nil {
		if sf := tr.contracts.SpecDecls[fobj.Pkg().Path()+"."+fobj.Name()]; sf != nil {
			return e.inlineSpec(sf, n, rt)
		}
		// math helpers usable in specs
		if fobj.Pkg().Path() == "math" {
			var args []Val
			for _, a := range n.Args {
				args = append(args, e.expr(a))
			}
			if v, ok := tr.mathCall(fobj.Name(), args, rt); ok {
				return v
			}
			// same uninterpreted symbol as the one used for calls in code
			un := fmt.Sprintf("ext_%s_%d", sym("math."+fobj.Name()), 0)
			var sorts, ts []Sx
			for _, a := range args {
				sorts = append(sorts, c.sortOf(a.typ))
				ts = append(ts, a.t)
			}
			c.declFun(un, sorts, c.sortOf(rt))
			return Val{t: sx(un, ts...), typ: rt}
		}
	}
	c.unsupp("spec: call of %s (only spec functions and builtins may be called in contracts)", exprString(tr.l.Prog.Fset, n.Fun))
	return Val{t: c.declConst("call", c.sortOf(rt)), typ: rt}
}

func (e *Env) inlineSpec(sf *specFunc, n *ast.CallExpr, rt types.Type) Val {
	tr := e.tr
	c := tr.c
	if e.depth > 12 {
		c.unsupp("spec: recursion too deep in %s", sf.Decl.Name.Name)
		return Val{t: c.declConst("rec", c.sortOf(rt)), typ: rt}
	}
	vars := map[string]Val{}
	i := 0
	for _, fld := range sf.Decl.Type.Params.List {
		for _, nm := range fld.Names {
			if i < len(n.Args) {
				v := e.expr(n.Args[i])
				if e.qdepth == 0 && strings.ContainsAny(v.t, " (") && v.typ != nil && v.addr == nil && len(v.t) > 40 {
					v.t = c.define("arg_"+nm.Name, c.sortOf(v.typ), v.t)
				}
				vars[nm.Name] = v
			}
			i++
		}
	}
	ne := &Env{tr: tr, vars: vars, st: e.st, old: e.old, info: sf.Info, depth: e.depth + 1, qdepth: e.qdepth, havocked: e.havocked}
	// quantifier-bound variables of the caller are irrelevant inside (lexical scoping)
	v := ne.block(sf.Decl.Body.List, rt)
	v.typ = rt
	return v
}

// block: sequence of `if c { return a }` ... `return b`
func (e *Env) block(stmts []ast.Stmt, rt types.Type) Val {
	c := e.tr.c
	if len(stmts) == 0 {
		c.unsupp("spec: function body falls off the end")
		return Val{t: c.zeroOf(rt), typ: rt}
	}
	switch s := stmts[0].(type) {
	case *ast.ReturnStmt:
		return e.expr(s.Results[0])
	case *ast.IfStmt:
		if s.Init == nil {
			cond := e.expr(s.Cond).t
			thenV := e.block(s.Body.List, rt)
			var elseV Val
			if s.Else != nil {
				switch el := s.Else.(type) {
				case *ast.BlockStmt:
					elseV = e.block(append(append([]ast.Stmt{}, el.List...), stmts[1:]...), rt)
				case *ast.IfStmt:
					elseV = e.block(append([]ast.Stmt{el}, stmts[1:]...), rt)
				}
			} else {
				elseV = e.block(stmts[1:], rt)
			}
			return Val{t: ite(cond, thenV.t, elseV.t), typ: rt}
		}
	case *ast.AssignStmt:
		// x := expr (single definitions only)
		if s.Tok == token.DEFINE && len(s.Lhs) == 1 && len(s.Rhs) == 1 {
			if id, ok := s.Lhs[0].(*ast.Ident); ok {
				v := e.expr(s.Rhs[0])
				if e.qdepth == 0 && strings.ContainsAny(v.t, " (") && v.typ != nil && v.addr == nil {
					v.t = c.define("let_"+id.Name, c.sortOf(v.typ), v.t)
				}
				ne := e.with(map[string]Val{id.Name: v})
				return ne.block(stmts[1:], rt)
			}
		}
	}
	c.unsupp("spec: unsupported statement %T in spec function", stmts[0])
	return Val{t: c.zeroOf(rt), typ: rt}
}

func (e *Env) prelude(name string, n *ast.CallExpr, typeArgs []types.Type, rt types.Type) Val {
	tr := e.tr
	c := tr.c
	it := c.it
	B := types.Typ[types.Bool]
	arg := func(i int) Val { return e.expr(n.Args[i]) }
	switch name {
	case "old":
		ne := *e
		ne.st = e.old
		return ne.expr(n.Args[0])
	case "imp":
		return Val{t: imp(arg(0).t, arg(1).t), typ: B}
	case "ite":
		return Val{t: ite(arg(0).t, arg(1).t, arg(2).t), typ: rt}
	case "forall", "exists":
		lo, hi := e.intIndex(n.Args[0]), e.intIndex(n.Args[1])
		fl, ok := n.Args[2].(*ast.FuncLit)
		if !ok {
			break
		}
		bound := fl.Type.Params.List[0].Names[0].Name
		return e.quant(name, it.isort(), bound, types.Typ[types.Int], func(v Sx) Sx {
			return and(it.le(I64, lo, v), it.lt(I64, v, hi))
		}, fl)
	case "forallp":
		fl, ok := n.Args[0].(*ast.FuncLit)
		if !ok {
			break
		}
		bound := fl.Type.Params.List[0].Names[0].Name
		pt := e.typeOf(fl.Type.Params.List[0].Type)
		// ranges over the objects that existed in the old (entry / pre-call) state: the reading
		// wanted by frame conditions ("every other pre-existing object is unchanged")
		return e.quant("forall", "Int", bound, pt, func(v Sx) Sx {
			return and(sx("<", "0", v), sx("<", v, tr.allocTerm(e.old)))
		}, fl)
	case "forallstr":
		fl, ok := n.Args[0].(*ast.FuncLit)
		if !ok {
			break
		}
		bound := fl.Type.Params.List[0].Names[0].Name
		return e.quant("forall", "Str", bound, types.Typ[types.String], func(v Sx) Sx {
			return it.le(I64, it.iconst(0), sx("slen", v))
		}, fl)
	case "forallint":
		fl, ok := n.Args[0].(*ast.FuncLit)
		if !ok {
			break
		}
		bound := fl.Type.Params.List[0].Names[0].Name
		return e.quant("forall", it.isort(), bound, types.Typ[types.Int64], func(v Sx) Sx {
			return it.inRange(I64, v)
		}, fl)
	case "forallfloat":
		fl, ok := n.Args[0].(*ast.FuncLit)
		if !ok {
			break
		}
		bound := fl.Type.Params.List[0].Names[0].Name
		return e.quant("forall", "(_ FloatingPoint 11 53)", bound, types.Typ[types.Float64], func(v Sx) Sx {
			return "true"
		}, fl)
	case "addFits", "subFits", "mulFits":
		a, b := arg(0).t, arg(1).t
		if it.mode == ModeInt {
			op := map[string]string{"addFits": "+", "subFits": "-", "mulFits": "*"}[name]
			return Val{t: it.inRange(I64, sx(op, a, b)), typ: B}
		}
		switch name {
		case "addFits":
			s := sx("bvadd", sx("(_ sign_extend 1)", a), sx("(_ sign_extend 1)", b))
			return Val{t: eq(sx("(_ extract 64 64)", s), sx("(_ extract 63 63)", s)), typ: B}
		case "subFits":
			s := sx("bvsub", sx("(_ sign_extend 1)", a), sx("(_ sign_extend 1)", b))
			return Val{t: eq(sx("(_ extract 64 64)", s), sx("(_ extract 63 63)", s)), typ: B}
		default:
			p := sx("bvmul", sx("(_ sign_extend 64)", a), sx("(_ sign_extend 64)", b))
			return Val{t: eq(p, sx("(_ sign_extend 64)", sx("(_ extract 63 0)", p))), typ: B}
		}
	case "mulAbsLtU":
		// exact |a*b| < bound, computed in 128 bits (bv) or mathematically (int)
		a, b, bd := arg(0).t, arg(1).t, arg(2).t
		if it.mode == ModeInt {
			p := sx("*", a, b)
			return Val{t: sx("<", ite(sx("<", p, "0"), sx("-", p), p), bd), typ: B}
		}
		p := sx("bvmul", sx("(_ sign_extend 64)", a), sx("(_ sign_extend 64)", b))
		ap := ite(sx("bvslt", p, "(_ bv0 128)"), sx("bvneg", p), p)
		return Val{t: sx("bvult", ap, sx("(_ zero_extend 64)", bd)), typ: B}
	case "isNaN":
		return Val{t: sx("fp.isNaN", arg(0).t), typ: B}
	case "isInf":
		return Val{t: sx("fp.isInfinite", arg(0).t), typ: B}
	case "sameFloat":
		return Val{t: eq(arg(0).t, arg(1).t), typ: B}
	case "fabs":
		return Val{t: sx("fp.abs", arg(0).t), typ: rt}
	case "ffloor":
		return Val{t: sx("fp.roundToIntegral", "RTN", arg(0).t), typ: rt}
	case "fceil":
		return Val{t: sx("fp.roundToIntegral", "RTP", arg(0).t), typ: rt}
	case "fround":
		return Val{t: sx("fp.roundToIntegral", "RNA", arg(0).t), typ: rt}
	case "ftrunc":
		return Val{t: sx("fp.roundToIntegral", "RTZ", arg(0).t), typ: rt}
	case "fresh":
		p := arg(0)
		return Val{t: and(sx("<=", tr.allocTerm(e.old), p.t), sx("<", p.t, tr.allocTerm(e.st)), sx("<", "0", p.t)), typ: B}
	case "allocated":
		p := arg(0)
		return Val{t: and(sx("<", "0", p.t), sx("<", p.t, tr.allocTerm(e.st))), typ: B}
	case "typeIs":
		if len(typeArgs) == 1 {
			con, _ := c.ifaceCon(typeArgs[0])
			return Val{t: sx(fmt.Sprintf("(_ is %s)", con), arg(0).t), typ: B}
		}
	case "streq":
		return Val{t: tr.strEqExt(arg(0).t, arg(1).t), typ: B}
	case "exactDiv":
		a, b := arg(0).t, arg(1).t
		z := it.iconst(0)
		return Val{t: and(not(eq(b, z)), eq(it.rem(I64, a, b), z)), typ: B}
	case "floorDiv":
		a, b := arg(0).t, arg(1).t
		if it.mode == ModeInt {
			// mathematical floor of a/b for b != 0 (SMT div is Euclidean: adjust for negative b)
			return Val{t: it.wrap(I64, ite(sx(">", b, "0"), sx("div", a, b), sx("div", sx("-", a), sx("-", b)))), typ: rt}
		}
		q := sx("bvsdiv", a, b)
		r := sx("bvsrem", a, b)
		z := it.iconst(0)
		adj := and(not(eq(r, z)), not(eq(sx("bvslt", a, z), sx("bvslt", b, z))))
		return Val{t: ite(adj, sx("bvsub", q, it.iconst(1)), q), typ: rt}
	case "popcount":
		if it.mode == ModeBV {
			a := arg(0).t
			var parts []Sx
			for i := 0; i < 64; i++ {
				parts = append(parts, sx("(_ zero_extend 63)", sx(fmt.Sprintf("(_ extract %d %d)", i, i), a)))
			}
			return Val{t: sx("bvadd", parts...), typ: rt}
		}
	case "reachable":
		return Val{t: "true", typ: B}
	case "unchanged":
		p := arg(0)
		pt := derefType(e.typeOf(n.Args[0]))
		var cs []Sx
		var walk func(key string, t types.Type)
		walk = func(key string, t types.Type) {
			if u, ok := t.Underlying().(*types.Struct); ok {
				for i := 0; i < u.NumFields(); i++ {
					walk(key+"."+u.Field(i).Name(), u.Field(i).Type())
				}
				return
			}
			tr.regKey(key, []Sx{"Int"}, c.sortOf(t))
			cs = append(cs, eq(sx("select", tr.memGet(e.st, key), p.t), sx("select", tr.memGet(e.old, key), p.t)))
		}
		if _, ok := pt.Underlying().(*types.Struct); ok {
			walk("F:"+shortType(pt), pt)
		} else {
			walk("P:"+shortType(pt), pt)
		}
		return Val{t: and(cs...), typ: B}
	case "allBytes", "allChars", "rangeBytes", "rangeChars":
		// forall j in the absolute index range [lo, hi) of the slice/string: f(byte at j).
		// Absolute indices make sub-slices and the byte view of a string line up syntactically.
		base := arg(0)
		lo := e.intIndex(n.Args[1])
		fArg := 2
		c.fresh++
		bv := fmt.Sprintf("j!q%d", c.fresh)
		var cell, rng Sx
		if name == "allChars" || name == "rangeChars" {
			hi := sx("slen", base.t)
			if name == "rangeChars" {
				hi = e.intIndex(n.Args[2])
				fArg = 3
			}
			cell = sx("select", sx("sbytes", base.t), bv)
			rng = and(it.le(I64, lo, bv), it.lt(I64, bv, hi))
		} else {
			hi := sx("sl_len", base.t)
			if name == "rangeBytes" {
				hi = e.intIndex(n.Args[2])
				fArg = 3
			}
			key := "E:uint8"
			tr.regKey(key, []Sx{"Int", it.isort()}, c.sortOf(types.Typ[types.Uint8]))
			off := sx("sl_off", base.t)
			cell = sx("select", sx("select", tr.memGet(e.st, key), sx("sl_arr", base.t)), bv)
			rng = and(it.le(I64, it.addNW(off, lo), bv), it.lt(I64, bv, it.addNW(off, hi)))
		}
		cv := Val{t: cell, typ: types.Typ[types.Uint8]}
		var body Sx
		switch fa := n.Args[fArg].(type) {
		case *ast.FuncLit:
			ne := e.with(map[string]Val{fa.Type.Params.List[0].Names[0].Name: cv})
			ne.qdepth = e.qdepth + 1
			if r, ok := fa.Body.List[0].(*ast.ReturnStmt); ok {
				body = ne.expr(r.Results[0]).t
			}
		case *ast.Ident, *ast.SelectorExpr:
			id, _ := fa.(*ast.Ident)
			if se, ok := fa.(*ast.SelectorExpr); ok {
				id = se.Sel
			}
			if fo, ok := e.info.Uses[id].(*types.Func); ok && fo.Pkg() != nil {
				if sf := tr.contracts.SpecDecls[fo.Pkg().Path()+"."+fo.Name()]; sf != nil {
					qe := *e
					qe.qdepth++
					body = qe.inlineSpecVals(sf, []Val{cv}, B).t
				}
			}
		}
		if body == "" {
			c.unsupp("spec: %s needs a function literal or a spec function", name)
			body = "true"
		}
		return Val{t: fmt.Sprintf("(forall ((%s %s)) %s)", bv, it.isort(), imp(rng, body)), typ: B}
	case "ext":
		// the uninterpreted symbol standing for result #idx of an external deterministic function
		if len(typeArgs) == 1 && len(n.Args) >= 2 {
			lit, ok1 := n.Args[0].(*ast.BasicLit)
			tv, ok2 := e.info.Types[n.Args[1]]
			if ok1 && ok2 && tv.Value != nil {
				fname := strings.Trim(lit.Value, `"`)
				un := fmt.Sprintf("ext_%s_%s", sym(fname), tv.Value.ExactString())
				var sorts, ts []Sx
				for _, a := range n.Args[2:] {
					v := e.expr(a)
					at := e.typeOf(a)
					if b, ok := at.(*types.Basic); ok && b.Info()&types.IsUntyped != 0 {
						at = types.Default(at)
					}
					sorts = append(sorts, c.sortOf(at))
					ts = append(ts, v.t)
				}
				c.declFun(un, sorts, c.sortOf(typeArgs[0]))
				return Val{t: sx(un, ts...), typ: typeArgs[0]}
			}
		}
	case "hasKey":
		m := arg(0)
		k := arg(1)
		if mt, ok := e.typeOf(n.Args[0]).Underlying().(*types.Map); ok {
			dom, _ := tr.mapKeys(mt)
			return Val{t: sx("select", sx("select", tr.memGet(e.st, dom), m.t), k.t), typ: B}
		}
	case "preservedArrays":
		// every backing array of element type T that existed at entry still has its entry contents
		if len(typeArgs) == 1 {
			key := "E:" + shortType(typeArgs[0])
			if _, isStruct := typeArgs[0].Underlying().(*types.Struct); !isStruct {
				tr.regKey(key, []Sx{"Int", it.isort()}, c.sortOf(typeArgs[0]))
				cur, old := tr.memGet(e.st, key), tr.memGet(e.old, key)
				if cur == old {
					return Val{t: "true", typ: B}
				}
				c.fresh++
				r := fmt.Sprintf("r!p%d", c.fresh)
				return Val{t: fmt.Sprintf("(forall ((%s Int)) (=> (< %s %s) (= (select %s %s) (select %s %s))))", r, r, tr.allocTerm(e.old), cur, r, old, r), typ: B}
			}
		}
	case "bufLen":
		ln, _ := tr.bufKeys()
		t := sx("select", tr.memGet(e.st, ln), arg(0).t)
		if e.qdepth == 0 {
			// the ghost length counts the bytes written so far: never negative
			n := c.define("buflen", c.it.isort(), t)
			c.axiom(n, c.it.le(I64, c.it.iconst(0), n))
			t = n
		}
		return Val{t: t, typ: rt}
	case "buffersPreserved":
		{
			ln, data := tr.bufKeys()
			c.fresh++
			r := fmt.Sprintf("r!bp%d", c.fresh)
			curL, oldL := tr.memGet(e.st, ln), tr.memGet(e.old, ln)
			curD, oldD := tr.memGet(e.st, data), tr.memGet(e.old, data)
			if curL == oldL && curD == oldD {
				return Val{t: "true", typ: B}
			}
			return Val{t: fmt.Sprintf("(forall ((%s Int)) (! (=> (< %s %s) (and (= (select %s %s) (select %s %s)) (= (select %s %s) (select %s %s)))) :pattern ((select %s %s)) :pattern ((select %s %s))))",
				r, r, tr.allocTerm(e.old), curL, r, oldL, r, curD, r, oldD, r, curL, r, curD, r), typ: B}
		}
	case "freshArray":
		a := sx("sl_arr", arg(0).t)
		return Val{t: and(sx("<=", tr.allocTerm(e.old), a), sx("<", a, tr.allocTerm(e.st)), sx("<", "0", a)), typ: B}
	case "arrayOf":
		return Val{t: sx("sl_arr", arg(0).t), typ: rt}
	case "bufAt":
		_, data := tr.bufKeys()
		return Val{t: sx("select", sx("select", tr.memGet(e.st, data), arg(0).t), e.intIndex(n.Args[1])), typ: rt}
	case "callArg":
		if tv, ok := e.info.Types[n.Args[0]]; ok && tv.Value != nil {
			if k, ok := constant.Int64Val(tv.Value); ok && int(k) < len(e.callArgs) {
				v := e.callArgs[k]
				if v.addr != nil {
					if p := plainRef(v.addr); p != "" {
						v = Val{t: p, typ: rt}
					}
				}
				v.typ = rt
				return v
			}
		}
	case "ghostInt":
		if lit, ok := n.Args[1].(*ast.BasicLit); ok {
			key := "X:" + strings.Trim(lit.Value, `"`)
			tr.regKey(key, []Sx{"Int"}, it.isort())
			return Val{t: sx("select", tr.memGet(e.st, key), arg(0).t), typ: rt}
		}
	case "ghostSeq":
		if lit, ok := n.Args[1].(*ast.BasicLit); ok {
			key := "XS:" + strings.Trim(lit.Value, `"`)
			tr.regKey(key, []Sx{"Int", it.isort()}, "Int")
			return Val{t: sx("select", sx("select", tr.memGet(e.st, key), arg(0).t), e.intIndex(n.Args[2])), typ: rt}
		}
	case "nothingModified":
		var cs []Sx
		keys := e.havocked
		if keys == nil && len(tr.writeLog) > 0 {
			keys = tr.writeLog[0]
		}
		for _, k := range sortedKeys(keys) {
			if k == "$alloc" || k == "*" || strings.HasPrefix(k, "R:") {
				continue
			}
			if _, ok := c.memSorts[k]; !ok {
				continue
			}
			cur, old := tr.memGet(e.st, k), tr.memGet(e.old, k)
			if cur != old {
				cs = append(cs, eq(cur, old))
			}
		}
		return Val{t: and(cs...), typ: B}
	case "inClass":
		fv := arg(0)
		if lit, ok := n.Args[1].(*ast.BasicLit); ok {
			name := strings.Trim(lit.Value, `"`)
			var alts []Sx
			for _, m := range classMembers(tr.contracts, name) {
				if m.Fn != nil {
					alts = append(alts, eq(fv.t, c.funcID(m.Fn)))
				}
			}
			return Val{t: or(alts...), typ: B}
		}
	case "funcIs":
		fv := arg(0)
		if lit, ok := n.Args[1].(*ast.BasicLit); ok {
			name := strings.Trim(lit.Value, `"`)
			if f := tr.l.findFunc(name); f != nil {
				return Val{t: eq(fv.t, c.funcID(f)), typ: B}
			}
			c.unsupp("spec: funcIs: unknown function %s", name)
		}
	}
	c.unsupp("spec: prelude call %s", name)
	return Val{t: c.declConst("pre", c.sortOf(rt)), typ: rt}
}

// extensional string equality
func (tr *Translator) strEqExt(a, b Sx) Sx {
	it := tr.c.it
	tr.c.fresh++
	k := fmt.Sprintf("k!e%d", tr.c.fresh)
	return and(eq(sx("slen", a), sx("slen", b)),
		fmt.Sprintf("(forall ((%s %s)) (=> (and %s %s) (= (sat %s %s) (sat %s %s))))", k, it.isort(),
			it.le(I64, it.iconst(0), k), it.lt(I64, k, sx("slen", a)), a, k, b, k))
}

// ---------------------------------------------------------------------------------------------
// Environments
// ---------------------------------------------------------------------------------------------

// env for requires/ensures of contract c with given args/results
func (tr *Translator) contractEnv(ct *Contract, names []string, vals []Val, st, old *State) *Env {
	vars := map[string]Val{}
	for i, n := range names {
		if i < len(vals) {
			vars[n] = vals[i]
		}
	}
	return &Env{tr: tr, vars: vars, st: st, old: old}
}

// nameEnv: identifiers visible just before instruction upto of block b (callsite clauses)
func (f *Frame) nameEnv(b *ssa.BasicBlock, upto ssa.Instruction, st *State) *Env {
	tr := f.tr
	vars := map[string]Val{}
	for _, p := range f.fn.Params {
		vars[p.Name()] = f.vals[p]
	}
	var doms []*ssa.BasicBlock
	for x := b; x != nil; x = x.Idom() {
		doms = append([]*ssa.BasicBlock{x}, doms...)
	}
	for _, blk := range doms {
		for _, in := range blk.Instrs {
			if blk == b && in == upto {
				break
			}
			switch x := in.(type) {
			case *ssa.Phi:
				if x.Comment != "" {
					if v, ok := f.vals[x]; ok {
						vars[x.Comment] = v
					}
				}
			case *ssa.DebugRef:
				id, ok := x.Expr.(*ast.Ident)
				if !ok {
					continue
				}
				if v, ok := f.vals[x.X]; ok {
					if x.IsAddr {
						vars["&"+id.Name] = v
						vars[id.Name] = tr.load(st, tr.addrOf(v, x.X.Type()))
					} else {
						vars[id.Name] = v
					}
				} else if cv, ok := x.X.(*ssa.Const); ok {
					vars[id.Name] = tr.constVal(cv.Type(), cv.Value)
				}
			}
		}
	}
	return &Env{tr: tr, vars: vars, st: st, old: f.entry}
}

// loopEnv: identifiers visible in loop clauses of the top frame
func (f *Frame) loopEnv(header *ssa.BasicBlock, phiVals map[*ssa.Phi]Val, st *State) *Env {
	tr := f.tr
	vars := map[string]Val{}
	// parameters
	for _, p := range f.fn.Params {
		vars[p.Name()] = f.vals[p]
	}
	// named values from DebugRefs in dominating blocks (last one wins in dominator order)
	var doms []*ssa.BasicBlock
	for b := header; b != nil; b = b.Idom() {
		doms = append([]*ssa.BasicBlock{b}, doms...)
	}
	for _, b := range doms {
		if b == header {
			break
		}
		for _, in := range b.Instrs {
			if dr, ok := in.(*ssa.DebugRef); ok {
				id, ok := dr.Expr.(*ast.Ident)
				if !ok {
					continue
				}
				if v, ok := f.vals[dr.X]; ok {
					if dr.IsAddr {
						// variable lives in a cell: read its current value
						a := tr.addrOf(v, dr.X.Type())
						lv := tr.load(st, a)
						vars[id.Name] = lv
						vars["&"+id.Name] = v
					} else {
						vars[id.Name] = v
					}
				} else if cv, ok := dr.X.(*ssa.Const); ok {
					vars[id.Name] = tr.constVal(cv.Type(), cv.Value)
				}
			}
		}
	}
	// loop-carried variables
	for phi, v := range phiVals {
		if phi.Comment != "" {
			vars[phi.Comment] = v
		}
		if phi.Comment == "rangeint.iter" {
			vars["rangeindex"] = v // `for i := range n`: the loop head is the body, rangeindex is i
		}
	}
	// the range expression of a `for range slice` loop is evaluated once before the loop
	// address-taken locals re-read in the given state
	for _, b := range doms {
		for _, in := range b.Instrs {
			if dr, ok := in.(*ssa.DebugRef); ok && dr.IsAddr {
				if id, ok := dr.Expr.(*ast.Ident); ok {
					if v, ok := f.vals[dr.X]; ok && b != header {
						a := tr.addrOf(v, dr.X.Type())
						vars[id.Name] = tr.load(st, a)
					}
				}
			}
		}
	}
	return &Env{tr: tr, vars: vars, st: st, old: f.entry}
}
