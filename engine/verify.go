package main

import (
	"fmt"
	"go/ast"
	"go/token"
	"go/types"
	"sort"
	"strings"

	"golang.org/x/tools/go/ssa"
)

// FuncResult: everything produced for one function under contract
type FuncResult struct {
	Contract    *Contract
	Ctx         *Ctx
	Obls        []*Obligation
	Unsupported []string
	Notes       []string
	Mode        Mode
	Regions     map[string]Sx // known-finding obligation name -> region term
	Label       string
	Tr          *Translator
}

func (r *FuncResult) Name() string {
	if r.Contract != nil {
		return r.Contract.Qual
	}
	return r.Label
}

// runBody translates the body of ct.Fn under its contract. When full is true, obligations for
// postconditions, vacuity and frame are generated.
func (tr *Translator) runBody(ct *Contract, full bool) {
	c := tr.c
	fn := ct.Fn
	tr.oblPrefix = ct.Qual
	tr.safety = full && !ct.NoSafety
	st := &State{guard: "true", mem: map[string]Sx{}}
	tr.regKey("$alloc", nil, "Int")
	// "$world" stands for every heap location this VC never mentions: havocking the whole heap
	// changes it, so a restricted modifies clause is only provable if no such havoc is reachable
	// (or is undone by the callee's own "nothingModified()" guarantee).
	tr.regKey("$world", nil, "Int")
	st.guard = sx("<", "0", tr.allocTerm(st))
	var args []Val
	for _, p := range fn.Params {
		v := Val{t: c.declConst("p_"+p.Name(), c.sortOf(p.Type())), typ: p.Type()}
		args = append(args, v)
		st.guard = and(append([]Sx{st.guard}, tr.typeFacts(st, v)...)...)
	}
	tr.assumeGlobalInvs(st)
	tr.assumeAxioms()
	entry := st.clone()
	tr.topArgs, tr.topEntry = args, entry
	// known-finding regions (predicates over the inputs at entry)
	for i, kf := range tr.contracts.KFs {
		if cl := tr.contracts.KFClauses[i]; cl != nil && kf.Func == ct.Qual && full {
			env := tr.contractEnv(ct, ct.PreNames, args, entry, entry)
			if tr.regions == nil {
				tr.regions = map[string]Sx{}
			}
			tr.regions[kf.Obligation] = tr.specBool(cl, env)
		}
	}
	// requires
	for _, cl := range ct.Requires {
		env := tr.contractEnv(ct, ct.PreNames, args, st, entry)
		st.guard = and(st.guard, tr.specBool(cl, env))
	}
	st.guard = c.defineBool("g_pre", st.guard)
	if full {
		c.addObl(&Obligation{Name: ct.Qual + "#pre-sat", Kind: "pre-sat", Guard: st.guard, Goal: "true", ExpectSat: true, Func: ct.Qual})
	}
	f := tr.newFrame(fn, 0, "", nil)
	f.contract = ct
	tr.calleeStack = []string{fullName(fn)}
	if len(ct.Loops) > 0 {
		tr.prepareLoopClauses(ct, f)
	}
	// a function literal verified on its own: its captured variables are unconstrained
	var free []Val
	for _, fv := range fn.FreeVars {
		v := Val{t: c.declConst("fv_"+fv.Name(), c.sortOf(fv.Type())), typ: fv.Type()}
		st.guard = and(append([]Sx{st.guard}, tr.typeFacts(st, v)...)...)
		free = append(free, v)
	}
	out, res := f.exec(st, args, free)
	if !full {
		return
	}
	if out == nil {
		c.addObl(&Obligation{Name: ct.Qual + "#exit-reach", Kind: "exit-reach", Guard: "false", Goal: "true", ExpectSat: true, Func: ct.Qual})
		return
	}
	c.addObl(&Obligation{Name: ct.Qual + "#exit-reach", Kind: "exit-reach", Guard: out.guard, Goal: "true", ExpectSat: true, Func: ct.Qual})
	tr.applyGhostUpdates(ct, f, out, args, res)
	for i, cl := range ct.Ensures {
		env := tr.contractEnv(ct, ct.PostNames, append(append([]Val{}, args...), res...), out, f.entry)
		g := tr.specBool(cl, env)
		// vacuity per clause: the antecedent of "imp(A, B)" must be reachable at exit, else the
		// clause says nothing (a contradictory case distinction in the requires would hide here)
		if call, ok := cl.Expr.(*ast.CallExpr); ok && len(call.Args) == 2 {
			if id, ok := call.Fun.(*ast.Ident); ok && id.Name == "imp" {
				cenv := *env
				cenv.info = cl.Info
				a := cenv.expr(call.Args[0]).t
				c.addObl(&Obligation{Name: fmt.Sprintf("%s#post.%d.cover", ct.Qual, i+1), Kind: "cover", Guard: out.guard, Goal: a, ExpectSat: true, Pos: "antecedent reachable: " + cl.Text, Func: ct.Qual})
			}
		}
		o := &Obligation{Name: fmt.Sprintf("%s#post.%d", ct.Qual, i+1), Kind: "post", Guard: out.guard, Goal: g, Pos: cl.Text, Func: ct.Qual}
		if len(f.rets) > 1 && len(f.rets) <= 64 && len(ct.Ghosts) == 0 {
			for _, r := range f.rets {
				renv := tr.contractEnv(ct, ct.PostNames, append(append([]Val{}, args...), r.vals...), r.st, f.entry)
				o.Cases = append(o.Cases, oblCase{Guard: r.st.guard, Goal: tr.specBool(cl, renv)})
			}
		}
		c.addObl(o)
	}
	// global invariants are re-established when the function wrote something they read
	if len(tr.writeLog) > 0 {
		for _, gi := range tr.contracts.GInvs {
			if gi.Clause.Expr == nil {
				continue
			}
			env := &Env{tr: tr, vars: map[string]Val{}, st: out, old: f.entry}
			g := tr.specBool(gi.Clause, env)
			touched := false
			for _, tok := range tokRe.FindAllString(g+" "+defText(c, g), -1) {
				for k := range tr.writeLog[0] {
					if k != "$alloc" && strings.Contains(tok, sym(k)) && (strings.HasPrefix(tok, "H_") || strings.HasPrefix(tok, "Hl") || strings.HasPrefix(tok, "Hc_") || strings.HasPrefix(tok, "Hh_")) {
						touched = true
					}
				}
			}
			if touched {
				c.addObl(&Obligation{Name: ct.Qual + "#ginv." + gi.Name, Kind: "ginv", Guard: out.guard, Goal: g, Pos: gi.Clause.Text, Func: ct.Qual})
			}
		}
	}
	// frame: keys written but not declared in modifies must leave pre-existing objects unchanged
	if ct.ModSet {
		mods := map[string]bool{}
		for _, m := range ct.Modifies {
			mods[m] = true
		}
		if !mods["*"] {
			w := map[string]bool{}
			if len(tr.writeLog) > 0 {
				w = tr.writeLog[0]
			}
			oldAlloc := tr.allocTerm(f.entry)
			for _, k := range sortedKeys(w) {
				if mods[k] || k == "$alloc" || k == "*" || strings.HasPrefix(k, "R:") {
					continue
				}
				ms, ok := c.memSorts[k]
				if !ok {
					continue
				}
				cur, old := tr.memGet(out, k), tr.memGet(f.entry, k)
				if cur == old {
					continue
				}
				var goal Sx
				if len(ms.idx) >= 1 && ms.idx[0] == "Int" {
					goal = fmt.Sprintf("(forall ((r Int)) (=> (< r %s) (= (select %s r) (select %s r))))", oldAlloc, cur, old)
				} else {
					goal = eq(cur, old)
				}
				c.addObl(&Obligation{Name: ct.Qual + "#frame:" + k, Kind: "frame", Guard: out.guard, Goal: goal, Pos: "modifies " + strings.Join(ct.Modifies, " "), Func: ct.Qual})
			}
		}
	}
}

// prepareLoopClauses type-checks loop invariants/variants at the position of their loop
func (tr *Translator) prepareLoopClauses(ct *Contract, f *Frame) {
	c := tr.c
	l := tr.l
	pkg := l.ByPath[ct.Fn.Pkg.Pkg.Path()]
	if pkg == nil {
		return
	}
	// locate the loaded FuncDecl
	var fd *ast.FuncDecl
	for _, file := range pkg.Syntax {
		for _, d := range file.Decls {
			if x, ok := d.(*ast.FuncDecl); ok && x.Name.Pos() == ct.Fn.Pos() {
				fd = x
			}
		}
	}
	if fd == nil {
		c.unsupp("cannot locate declaration of %s", ct.Qual)
		return
	}
	var synLoops []ast.Node
	ast.Inspect(fd.Body, func(n ast.Node) bool {
		switch n.(type) {
		case *ast.ForStmt, *ast.RangeStmt:
			synLoops = append(synLoops, n)
		case *ast.FuncLit:
			return false
		}
		return true
	})
	if len(synLoops) != len(f.loops) {
		c.unsupp("loop structure mismatch in %s: %d syntactic loops, %d SSA loops", ct.Qual, len(synLoops), len(f.loops))
		return
	}
	// "loop * invariant": replicate for every loop (fresh clause objects: each is type-checked at its own loop)
	if all := ct.Loops[0]; all != nil {
		delete(ct.Loops, 0)
		for k := 1; k <= len(synLoops); k++ {
			ls := ct.Loops[k]
			if ls == nil {
				ls = &LoopSpec{}
				ct.Loops[k] = ls
			}
			for _, cl := range all.Invariants {
				cp := *cl
				cp.Expr, cp.Info = nil, nil
				ls.Invariants = append(ls.Invariants, &cp)
			}
		}
	}
	for k, ls := range ct.Loops {
		if k < 1 || k > len(synLoops) {
			c.unsupp("contract names loop %d of %s which has %d loops", k, ct.Qual, len(synLoops))
			continue
		}
		var pos token.Pos
		switch n := synLoops[k-1].(type) {
		case *ast.ForStmt:
			pos = n.Body.Lbrace + 1
		case *ast.RangeStmt:
			pos = n.Body.Lbrace + 1
		}
		for _, cl := range append(append([]*Clause{}, ls.Invariants...), ls.Decreases...) {
			if cl.Expr != nil {
				continue
			}
			e, err := parseSugared(cl.Text)
			if err != nil {
				c.unsupp("%s:%d: %v", cl.File, cl.Line, err)
				continue
			}
			info := &types.Info{Types: map[ast.Expr]types.TypeAndValue{}, Uses: map[*ast.Ident]types.Object{}, Defs: map[*ast.Ident]types.Object{},
				Selections: map[*ast.SelectorExpr]*types.Selection{}, Instances: map[*ast.Ident]types.Instance{}}
			if err := types.CheckExpr(l.Prog.Fset, pkg.Types, pos, e, info); err != nil {
				c.unsupp("%s:%d: loop clause does not type-check: %v", cl.File, cl.Line, err)
				continue
			}
			cl.Expr, cl.Info = e, info
		}
	}
}

// verifyContract: translate (to a fixpoint of loop-modified sets) and return obligations
func verifyContract(l *Loaded, cs *ContractSet, ct *Contract) *FuncResult {
	mode := ModeInt
	if ct.ModeSet {
		mode = ct.Mode
	}
	loopMods := map[string]map[string]bool{}
	var tr *Translator
	var prevSorts map[string]memSort
	for pass := 0; pass < 5; pass++ {
		c := newCtx(l, mode)
		for k, v := range prevSorts {
			c.memSorts[k] = v
		}
		prevSorts = c.memSorts
		w := map[string]bool{}
		tr = &Translator{c: c, l: l, contracts: cs, top: ct.Fn, topC: ct, loopMods: loopMods, inlineMax: 4, initMem: map[string]Sx{}, writeLog: []map[string]bool{w}}
		tr.runBody(ct, true)
		if !tr.modsGrew {
			break
		}
	}
	obs := tr.observations()
	for _, o := range tr.c.obls {
		if !o.ExpectSat {
			o.Obs = obs
		}
	}
	var notes []string
	for n := range tr.c.notes {
		notes = append(notes, n)
	}
	sort.Strings(notes)
	return &FuncResult{Contract: ct, Ctx: tr.c, Obls: tr.c.obls, Unsupported: tr.c.unsupported, Notes: notes, Mode: mode, Regions: tr.regions, Tr: tr}
}

var _ = ssa.NaiveForm

func defText(c *Ctx, name Sx) string {
	if d, ok := c.declIdx[name]; ok {
		return d.text
	}
	return ""
}

// assumeGlobalInvs: global invariants hold in state st (attached as axioms owned by the heap
// symbol they read, so that they only enter queries that look at that part of the heap)
func (tr *Translator) assumeGlobalInvs(st *State) {
	c := tr.c
	for _, gi := range tr.contracts.GInvs {
		if gi.Clause.Expr == nil {
			continue
		}
		env := &Env{tr: tr, vars: map[string]Val{}, st: st, old: st}
		e := *env
		e.info = gi.Clause.Info
		g := e.expr(gi.Clause.Expr).t
		owner := ""
		expanded := g
		for _, tok := range tokRe.FindAllString(g, -1) {
			expanded += " " + defText(c, tok) // heap reads may hide behind definitions (ld!N, sld!N)
		}
		for _, tok := range tokRe.FindAllString(expanded, -1) {
			if _, ok := c.declIdx[tok]; !ok {
				continue
			}
			if strings.Contains(tok, "_F_") || strings.Contains(tok, "_P_") || strings.Contains(tok, "_E_") {
				owner = tok
			} else if owner == "" && (strings.HasPrefix(tok, "H0_G_") || strings.Contains(tok, "_G_")) {
				owner = tok
			}
		}
		if owner == "" {
			st.guard = and(st.guard, g)
			continue
		}
		key := owner + "|" + gi.Name
		if tr.ginvDone == nil {
			tr.ginvDone = map[string]bool{}
		}
		if tr.ginvDone[key] {
			continue
		}
		tr.ginvDone[key] = true
		c.axiom(owner, g)
		c.note("global invariants of the mlrval singletons (ABSENT, VOID, NULL, TRUE, FALSE ...) are assumed at entry and after calls to unverified code; they are re-checked at exit of every verified function that writes the fields they mention")
	}
}

// assumeAxioms: trusted facts about external functions (//@ axiom), attached to the uninterpreted
// symbol they constrain so that they only enter queries that mention it.
func (tr *Translator) assumeAxioms() {
	c := tr.c
	for _, ax := range tr.contracts.Axioms {
		if ax.Clause.Expr == nil {
			continue
		}
		st := &State{guard: "true", mem: map[string]Sx{}}
		e := &Env{tr: tr, vars: map[string]Val{}, st: st, old: st, info: ax.Clause.Info}
		g := e.expr(ax.Clause.Expr).t
		owner := ""
		for _, tok := range tokRe.FindAllString(g, -1) {
			if strings.HasPrefix(tok, "ext_") {
				if _, ok := c.declIdx[tok]; ok {
					owner = tok
				}
			}
		}
		c.softAxiom(owner, g)
		c.note("trusted axiom about library functions: " + ax.Name + ": " + ax.Clause.Text)
	}
}

// applyGhostUpdates: the ghost state chosen at exit (witness of the abstract view in closed form)
func (tr *Translator) applyGhostUpdates(ct *Contract, f *Frame, out *State, args, res []Val) {
	c := tr.c
	it := c.it
	if len(ct.Ghosts) == 0 {
		return
	}
	base := out.clone() // all bodies are evaluated against the real final state and the old ghost state
	type upd struct {
		key string
		val Sx
	}
	var upds []upd
	for _, g := range ct.Ghosts {
		if g.Clause.Expr == nil {
			c.unsupp("ghost clause not type-checked: %s", g.Clause.Text)
			continue
		}
		env := tr.contractEnv(ct, ct.PostNames, append(append([]Val{}, args...), res...), base, f.entry)
		env.info = g.Clause.Info
		var target ast.Expr
		var value ast.Expr
		if g.All {
			value = g.Clause.Expr
		} else {
			cl, ok := g.Clause.Expr.(*ast.CompositeLit)
			if !ok || len(cl.Elts) != 2 {
				c.unsupp("bad ghost clause %s", g.Clause.Text)
				continue
			}
			target, value = cl.Elts[0], cl.Elts[1]
		}
		fl, isLit := value.(*ast.FuncLit)
		switch {
		case g.All && isLit:
			key := "X:" + g.Name
			tr.regKey(key, []Sx{"Int"}, it.isort())
			na := c.declConst("G_"+g.Name, tr.memSortFull(key))
			c.fresh++
			bv := fmt.Sprintf("e!g%d", c.fresh)
			pname := fl.Type.Params.List[0].Names[0].Name
			ne := env.with(map[string]Val{pname: {t: bv, typ: env.typeOf(fl.Type.Params.List[0].Type)}})
			ne.qdepth = 1
			body := ne.expr(fl.Body.List[0].(*ast.ReturnStmt).Results[0]).t
			c.softAxiom(na, fmt.Sprintf("(forall ((%s Int)) (! (= (select %s %s) %s) :pattern ((select %s %s))))", bv, na, bv, body, na, bv))
			upds = append(upds, upd{key, na})
		case !g.All && isLit:
			key := "XS:" + g.Name
			tr.regKey(key, []Sx{"Int", it.isort()}, "Int")
			p := env.expr(target).t
			inner := sx("Array", it.isort(), "Int")
			na := c.declConst("G_"+g.Name, inner)
			c.fresh++
			bv := fmt.Sprintf("i!g%d", c.fresh)
			pname := fl.Type.Params.List[0].Names[0].Name
			ne := env.with(map[string]Val{pname: {t: bv, typ: types.Typ[types.Int]}})
			ne.qdepth = 1
			body := ne.expr(fl.Body.List[0].(*ast.ReturnStmt).Results[0]).t
			c.softAxiom(na, fmt.Sprintf("(forall ((%s %s)) (! (= (select %s %s) %s) :pattern ((select %s %s))))", bv, it.isort(), na, bv, body, na, bv))
			upds = append(upds, upd{key, sx("store", tr.memGet(base, key), p, na)})
		case !g.All:
			key := "X:" + g.Name
			tr.regKey(key, []Sx{"Int"}, it.isort())
			p := env.expr(target).t
			v := env.expr(value)
			upds = append(upds, upd{key, sx("store", tr.memGet(base, key), p, v.t)})
		default:
			c.unsupp("bad ghost clause %s", g.Clause.Text)
		}
	}
	for _, u := range upds {
		cur := tr.memGet(out, u.key)
		val := u.val
		// several pointwise updates of the same key compose
		if strings.HasPrefix(val, "(store "+tr.memGet(base, u.key)+" ") && cur != tr.memGet(base, u.key) {
			val = strings.Replace(val, "(store "+tr.memGet(base, u.key)+" ", "(store "+cur+" ", 1)
		}
		out.mem[u.key] = c.define("H_"+u.key, tr.memSortFull(u.key), val)
		for _, w := range tr.writeLog {
			w[u.key] = true
		}
	}
}
