package main

import (
	"fmt"
	"go/ast"
	"go/constant"
	"go/types"
	"strings"

	"golang.org/x/tools/go/ssa"
)

// ---------------------------------------------------------------------------------------------
// Package-level variables holding functions or constant tables.
//
//  * candidates(g): the functions that are ever stored into g (or into memory derived from g)
//    anywhere in the loaded program — a static, type-safety argument used to dispatch calls
//    through function values loaded from g.
//  * initial contents: if no function other than the package initialiser stores into g, the
//    value of g at any time equals its composite-literal initialiser; the cells are then given
//    to the solver as facts about the initial memory.
// ---------------------------------------------------------------------------------------------

type globalInfo struct {
	g          *ssa.Global
	immutable  bool
	cands      []*ssa.Function
	candsKnown bool
	cells      []globalCell // from the AST initialiser (nil if none)
	isSlice    bool
	sliceLen   int64
	initExpr   ast.Expr // the whole initialiser expression
}

type globalCell struct {
	idx []int64
	e   ast.Expr
}

var globalCache = map[*ssa.Global]*globalInfo{}

func (l *Loaded) globalByKey(key string) *ssa.Global {
	// key: G:<shortpkg>.<name>[...]
	k := strings.TrimPrefix(key, "G:")
	for strings.HasSuffix(k, "[]") {
		k = strings.TrimSuffix(k, "[]")
	}
	dot := strings.LastIndex(k, ".")
	if dot < 0 {
		return nil
	}
	sp := l.ssaPkgByShort(k[:dot])
	if sp == nil {
		return nil
	}
	return sp.Var(k[dot+1:])
}

func (l *Loaded) globalInfoOf(g *ssa.Global) *globalInfo {
	if gi, ok := globalCache[g]; ok {
		return gi
	}
	gi := &globalInfo{g: g, immutable: true, candsKnown: true}
	globalCache[g] = gi
	seen := map[*ssa.Function]bool{}
	addCand := func(f *ssa.Function) {
		if !seen[f] {
			seen[f] = true
			gi.cands = append(gi.cands, f)
		}
	}
	// scan the program for stores
	scan := func(fn *ssa.Function) {
		touches := false
		derived := map[ssa.Value]bool{}
		var storedFuncs []*ssa.Function
		unknownStore := false
		for _, b := range fn.Blocks {
			for _, in := range b.Instrs {
				if st, ok := in.(*ssa.Store); ok {
					if f := asStaticFunc(st.Val); f != nil {
						storedFuncs = append(storedFuncs, f)
					}
				}
				for _, op := range in.Operands(nil) {
					if op == nil || *op == nil || (*op != ssa.Value(g) && !derived[*op]) {
						continue
					}
					switch x := in.(type) {
					case *ssa.IndexAddr:
						derived[x] = true
					case *ssa.FieldAddr:
						derived[x] = true
					case *ssa.UnOp:
						// load: a loaded slice is still "derived" (its elements alias the table)
						if _, isSl := x.Type().Underlying().(*types.Slice); isSl {
							derived[x] = true
						}
					case *ssa.DebugRef:
					case *ssa.Store:
						if x.Addr == *op {
							touches = true
							if _, isSig := x.Val.Type().Underlying().(*types.Signature); isSig {
								if asStaticFunc(x.Val) == nil {
									unknownStore = true
								}
							}
						} else {
							touches = true
							unknownStore = true // address escapes
						}
					case *ssa.Call:
						// passing a derived slice to len/cap is harmless; anything else escapes
						if bi, ok := x.Call.Value.(*ssa.Builtin); ok && (bi.Name() == "len" || bi.Name() == "cap") {
							continue
						}
						touches = true
						unknownStore = true
					case *ssa.Slice, *ssa.Phi, *ssa.MakeInterface, *ssa.Return:
						touches = true
						unknownStore = true
					}
				}
			}
		}
		if touches {
			// only the synthetic package initialiser may store without making the global mutable
			if !(fn.Name() == "init" && fn.Synthetic != "" && fn.Pkg == g.Pkg) {
				gi.immutable = false
			}
			synthInit := fn.Name() == "init" && fn.Synthetic != "" && fn.Pkg == g.Pkg
			if unknownStore && !synthInit {
				gi.candsKnown = false
			}
			if !synthInit { // the package initialiser is read from the AST instead (precise)
				for _, f := range storedFuncs {
					addCand(f)
				}
			}
		}
	}
	for fn := range ssautilAllFunctions(l) {
		if fn.Pkg == nil || len(fn.Blocks) == 0 {
			continue
		}
		if (g.Object() == nil || !g.Object().Exported()) && fn.Pkg != g.Pkg {
			continue
		}
		scan(fn)
	}
	// AST initialiser
	pkg := l.ByPath[g.Pkg.Pkg.Path()]
	if pkg != nil && g.Object() != nil {
		obj := g.Object()
		for _, file := range pkg.Syntax {
			for _, d := range file.Decls {
				gd, ok := d.(*ast.GenDecl)
				if !ok {
					continue
				}
				for _, s := range gd.Specs {
					vs, ok := s.(*ast.ValueSpec)
					if !ok {
						continue
					}
					for i, n := range vs.Names {
						if pkg.TypesInfo.Defs[n] == obj && i < len(vs.Values) {
							gi.initExpr = vs.Values[i]
							gi.collectInit(l, pkg.TypesInfo, vs.Values[i], obj.Type(), addCand)
						}
					}
				}
			}
		}
	}
	return gi
}

var allFuncsCache map[*ssa.Function]bool

func ssautilAllFunctions(l *Loaded) map[*ssa.Function]bool {
	if allFuncsCache != nil {
		return allFuncsCache
	}
	m := map[*ssa.Function]bool{}
	var add func(f *ssa.Function)
	add = func(f *ssa.Function) {
		if f == nil || m[f] {
			return
		}
		m[f] = true
		for _, an := range f.AnonFuncs {
			add(an)
		}
	}
	for _, sp := range l.SSAPkgs {
		for _, mem := range sp.Members {
			switch x := mem.(type) {
			case *ssa.Function:
				add(x)
			case *ssa.Type:
				for _, t := range []types.Type{x.Type(), types.NewPointer(x.Type())} {
					ms := l.Prog.MethodSets.MethodSet(t)
					for i := 0; i < ms.Len(); i++ {
						add(l.Prog.MethodValue(ms.At(i)))
					}
				}
			}
		}
	}
	allFuncsCache = m
	return m
}

func (gi *globalInfo) collectInit(l *Loaded, info *types.Info, e ast.Expr, t types.Type, addCand func(*ssa.Function)) {
	// function identifiers anywhere in the initialiser are candidates
	ast.Inspect(e, func(n ast.Node) bool {
		if id, ok := n.(*ast.Ident); ok {
			if fo, ok := info.Uses[id].(*types.Func); ok {
				if f := l.Prog.FuncValue(fo); f != nil {
					addCand(f)
				}
			}
		}
		return true
	})
	lit, ok := e.(*ast.CompositeLit)
	if !ok {
		if id, ok := e.(*ast.Ident); ok {
			gi.cells = []globalCell{{nil, id}}
		}
		return
	}
	var walk func(lit *ast.CompositeLit, t types.Type, prefix []int64) bool
	walk = func(lit *ast.CompositeLit, t types.Type, prefix []int64) bool {
		var elemT types.Type
		switch u := t.Underlying().(type) {
		case *types.Array:
			elemT = u.Elem()
		case *types.Slice:
			elemT = u.Elem()
		default:
			return false
		}
		next := int64(0)
		for _, el := range lit.Elts {
			k := next
			ve := el
			if kv, ok := el.(*ast.KeyValueExpr); ok {
				tv := info.Types[kv.Key]
				if tv.Value == nil {
					return false
				}
				k, _ = constant.Int64Val(constant.ToInt(tv.Value))
				ve = kv.Value
			}
			next = k + 1
			idx := append(append([]int64{}, prefix...), k)
			if inner, ok := ve.(*ast.CompositeLit); ok {
				if _, isArr := elemT.Underlying().(*types.Array); isArr {
					if !walk(inner, elemT, idx) {
						return false
					}
					continue
				}
			}
			gi.cells = append(gi.cells, globalCell{idx, ve})
		}
		if len(prefix) == 0 {
			gi.sliceLen = next
		}
		return true
	}
	if _, isSl := t.Underlying().(*types.Slice); isSl {
		gi.isSlice = true
	}
	if !walk(lit, t, nil) {
		gi.cells = nil
	}
}

// initFacts: axioms about the initial memory symbol of an immutable initialised global
func (tr *Translator) globalInitFacts(key string, sym Sx) {
	if !strings.HasPrefix(key, "G:") {
		return
	}
	g := tr.l.globalByKey(key)
	if g == nil {
		return
	}
	gi := tr.l.globalInfoOf(g)
	if gi.immutable && key == "G:"+shortGlobal(g) {
		// var errX = errors.New(...) / fmt.Errorf(...), never reassigned: a non-nil error
		if call, ok := gi.initExpr.(*ast.CallExpr); ok {
			if se, ok := call.Fun.(*ast.SelectorExpr); ok {
				if id, ok := se.X.(*ast.Ident); ok && ((id.Name == "errors" && se.Sel.Name == "New") || (id.Name == "fmt" && se.Sel.Name == "Errorf")) {
					tr.c.axiom(sym, not(eq(sym, "ifc_nil")))
					tr.c.note(fmt.Sprintf("package-level error value %s is initialised by errors.New/fmt.Errorf and never reassigned (static scan): non-nil", shortGlobal(g)))
				}
			}
		}
	}
	if !gi.immutable || len(gi.cells) == 0 {
		return
	}
	c := tr.c
	pkg := tr.l.ByPath[g.Pkg.Pkg.Path()]
	st := &State{guard: "true", mem: map[string]Sx{}}
	env := &Env{tr: tr, vars: map[string]Val{}, st: st, old: st, info: pkg.TypesInfo}
	depth := strings.Count(key, "[]")
	if gi.isSlice {
		if depth != 0 {
			return
		}
		// the slice header: a fixed backing array, offset 0, known length
		elem := derefType(g.Type()).Underlying().(*types.Slice).Elem()
		if _, isStruct := elem.Underlying().(*types.Struct); isStruct {
			return
		}
		ekey := "E:" + shortType(elem)
		tr.regKey(ekey, []Sx{"Int", c.it.isort()}, c.sortOf(elem))
		esym := tr.memInit(ekey, c.memSorts[ekey])
		arr := sx("sl_arr", sym)
		var facts []Sx
		facts = append(facts, sx("<", "0", arr), sx("<", arr, tr.memInit("$alloc", memSort{leaf: "Int"})),
			eq(sx("sl_off", sym), c.it.iconst(0)), eq(sx("sl_len", sym), c.it.iconst(gi.sliceLen)), c.it.le(I64, c.it.iconst(gi.sliceLen), sx("sl_cap", sym)))
		for _, cell := range gi.cells {
			if len(cell.idx) != 1 {
				return
			}
			v := env.expr(cell.e)
			facts = append(facts, eq(sx("select", sx("select", esym, arr), c.it.iconst(cell.idx[0])), v.t))
		}
		c.axiom(sym, and(facts...))
		c.note(fmt.Sprintf("package-level table %s is never stored to outside the package initialiser (static scan): its contents equal the composite-literal initialiser; its backing array is assumed not to be written through other aliases", shortGlobal(g)))
		return
	}
	var facts []Sx
	for _, cell := range gi.cells {
		if len(cell.idx) != depth {
			return
		}
		v := env.expr(cell.e)
		t := sym
		for _, i := range cell.idx {
			t = sx("select", t, c.it.iconst(i))
		}
		facts = append(facts, eq(t, v.t))
	}
	if len(facts) > 0 {
		c.axiom(sym, and(facts...))
		c.note(fmt.Sprintf("package-level table %s is never stored to outside the package initialiser (static scan): its contents equal the composite-literal initialiser", shortGlobal(g)))
	}
}

func shortGlobal(g *ssa.Global) string {
	return strings.TrimPrefix(g.Pkg.Pkg.Path(), modPath+"/pkg/") + "." + g.Name()
}

// asStaticFunc: the function a value statically denotes (through type changes), or nil
func asStaticFunc(v ssa.Value) *ssa.Function {
	for {
		switch x := v.(type) {
		case *ssa.Function:
			return x
		case *ssa.MakeClosure:
			f, _ := x.Fn.(*ssa.Function)
			return f
		case *ssa.ChangeType:
			v = x.X
		default:
			return nil
		}
	}
}
