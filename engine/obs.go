package main

import (
	"fmt"
	"go/types"
	"strings"
)

// ---------------------------------------------------------------------------------------------
// Observations: terms over the inputs (at function entry) whose values are read back from a model
// with (get-value ...). They drive the counterexample report and the Go-level replay.
// ---------------------------------------------------------------------------------------------

type obsTerm struct {
	Label string
	Term  Sx
}

func (tr *Translator) observations() []obsTerm {
	var out []obsTerm
	if tr.top == nil || tr.topEntry == nil {
		return nil
	}
	for i, p := range tr.top.Params {
		if i >= len(tr.topArgs) {
			break
		}
		out = append(out, tr.obsValue(p.Name(), p.Type(), tr.topArgs[i].t, 0)...)
	}
	return out
}

func (tr *Translator) obsValue(label string, t types.Type, term Sx, depth int) []obsTerm {
	c := tr.c
	it := c.it
	var out []obsTerm
	if term == "" {
		return nil
	}
	switch u := t.Underlying().(type) {
	case *types.Basic:
		if isStringType(t) {
			out = append(out, obsTerm{label + ".len", sx("slen", term)})
			for k := 0; k < 24; k++ {
				out = append(out, obsTerm{fmt.Sprintf("%s[%d]", label, k), sx("sat", term, it.iconst(int64(k)))})
			}
			return out
		}
		return []obsTerm{{label, term}}
	case *types.Pointer:
		out = append(out, obsTerm{label, term})
		if depth >= 2 {
			return out
		}
		if st, ok := u.Elem().Underlying().(*types.Struct); ok {
			var walk func(key, lab string, st *types.Struct)
			walk = func(key, lab string, st *types.Struct) {
				for i := 0; i < st.NumFields(); i++ {
					f := st.Field(i)
					k := key + "." + f.Name()
					if inner, ok := f.Type().Underlying().(*types.Struct); ok {
						walk(k, lab+"."+f.Name(), inner)
						continue
					}
					if _, ok := c.memSorts[k]; !ok {
						continue // field never touched by the VC
					}
					ft := sx("select", tr.memGet(tr.topEntry, k), term)
					out = append(out, tr.obsValue(lab+"."+f.Name(), f.Type(), ft, depth+1)...)
				}
			}
			walk("F:"+shortType(u.Elem()), label, st)
		}
		return out
	case *types.Slice:
		out = append(out, obsTerm{label + ".len", sx("sl_len", term)})
		key := "E:" + shortType(u.Elem())
		if _, ok := c.memSorts[key]; ok && depth < 2 {
			for k := 0; k < 6; k++ {
				et := sx("select", sx("select", tr.memGet(tr.topEntry, key), sx("sl_arr", term)), it.addNW(sx("sl_off", term), it.iconst(int64(k))))
				out = append(out, tr.obsValue(fmt.Sprintf("%s[%d]", label, k), u.Elem(), et, depth+1)...)
			}
		}
		return out
	case *types.Interface, *types.Signature, *types.Map, *types.Chan:
		return []obsTerm{{label, term}}
	case *types.Struct:
		for i := 0; i < u.NumFields(); i++ {
			f := u.Field(i)
			s := c.sortOf(t)
			out = append(out, tr.obsValue(label+"."+f.Name(), f.Type(), sx(s+"."+sym(f.Name()), term), depth+1)...)
		}
		return out
	}
	return []obsTerm{{label, term}}
}

// ---------------------------------------------------------------------------------------------
// minimal s-expression reader for (get-value ...) output
// ---------------------------------------------------------------------------------------------

type sexp struct {
	atom string
	list []*sexp
}

func (s *sexp) String() string {
	if s.list == nil {
		return s.atom
	}
	var parts []string
	for _, x := range s.list {
		parts = append(parts, x.String())
	}
	return "(" + strings.Join(parts, " ") + ")"
}

func parseSexps(src string) []*sexp {
	var out []*sexp
	pos := 0
	var parse func() *sexp
	skip := func() {
		for pos < len(src) {
			if src[pos] == ';' {
				for pos < len(src) && src[pos] != '\n' {
					pos++
				}
			} else if src[pos] == ' ' || src[pos] == '\n' || src[pos] == '\t' || src[pos] == '\r' {
				pos++
			} else {
				break
			}
		}
	}
	parse = func() *sexp {
		skip()
		if pos >= len(src) {
			return nil
		}
		if src[pos] == '(' {
			pos++
			n := &sexp{list: []*sexp{}}
			for {
				skip()
				if pos >= len(src) {
					return n
				}
				if src[pos] == ')' {
					pos++
					return n
				}
				n.list = append(n.list, parse())
			}
		}
		start := pos
		if src[pos] == '|' {
			pos++
			for pos < len(src) && src[pos] != '|' {
				pos++
			}
			pos++
		} else if src[pos] == '"' {
			pos++
			for pos < len(src) && src[pos] != '"' {
				pos++
			}
			pos++
		} else {
			for pos < len(src) && !strings.ContainsRune(" \n\t\r()", rune(src[pos])) {
				pos++
			}
		}
		return &sexp{atom: src[start:pos]}
	}
	for {
		skip()
		if pos >= len(src) {
			break
		}
		if s := parse(); s != nil {
			out = append(out, s)
		}
	}
	return out
}
