package main

import (
	"fmt"
	"go/types"
	"os"
	"sort"
	"strings"

	"golang.org/x/tools/go/packages"
	"golang.org/x/tools/go/ssa"
	"golang.org/x/tools/go/ssa/ssautil"
)

const repoDir = "/repo"
const modPath = "github.com/johnkerl/miller/v6"

// parserStub replaces the emptied pkg/parsing/parser/parser.go in the overlay so
// that pkg/dsl/cst type-checks. No function of it is ever under contract.
const parserStub = `package parser

import (
	"github.com/johnkerl/pgpg/go/lib/pkg/asts"
)

type MlrParser struct{}

func NewMlrParser() *MlrParser { return &MlrParser{} }

func (p *MlrParser) Parse(lexer interface{}, s ...interface{}) (*asts.AST, error) { return nil, nil }
`

type Loaded struct {
	Pkgs    []*packages.Package
	Prog    *ssa.Program
	SSAPkgs map[string]*ssa.Package // by import path
	ByPath  map[string]*packages.Package
}

func loadRepo(overlay map[string][]byte, patterns []string) (*Loaded, error) {
	ov := map[string][]byte{}
	for k, v := range overlay {
		ov[k] = v
	}
	pfile := repoDir + "/pkg/parsing/parser/parser.go"
	if st, err := os.Stat(pfile); err == nil && st.Size() == 0 {
		ov[pfile] = []byte(parserStub)
	}
	cfg := &packages.Config{
		Mode: packages.NeedName | packages.NeedFiles | packages.NeedCompiledGoFiles | packages.NeedImports |
			packages.NeedDeps | packages.NeedTypes | packages.NeedSyntax | packages.NeedTypesInfo | packages.NeedTypesSizes | packages.NeedModule,
		Dir:     repoDir,
		Overlay: ov,
		Env:     append(os.Environ(), "PATH=/opt/veriftools/go1.26.8/bin:"+os.Getenv("PATH"), "GOFLAGS=-mod=mod", "GOPROXY=off", "GOTOOLCHAIN=local", "GOSUMDB=off"),
	}
	pkgs, err := packages.Load(cfg, patterns...)
	if err != nil {
		return nil, err
	}
	var errs []string
	packages.Visit(pkgs, nil, func(p *packages.Package) {
		if strings.HasPrefix(p.PkgPath, modPath) {
			for _, e := range p.Errors {
				if strings.Contains(e.Pos, "verif_synth_gen.go") && strings.Contains(e.Msg, "imported and not used") {
					continue
				}
				errs = append(errs, e.Error())
			}
		}
	})
	if len(errs) > 0 {
		sort.Strings(errs)
		return nil, fmt.Errorf("load errors:\n%s", strings.Join(errs, "\n"))
	}
	prog, spkgs := ssautil.AllPackages(pkgs, ssa.GlobalDebug|ssa.InstantiateGenerics)
	prog.Build()
	l := &Loaded{Pkgs: pkgs, Prog: prog, SSAPkgs: map[string]*ssa.Package{}, ByPath: map[string]*packages.Package{}}
	for i, p := range pkgs {
		l.ByPath[p.PkgPath] = p
		if spkgs[i] != nil {
			l.SSAPkgs[p.PkgPath] = spkgs[i]
		}
	}
	return l, nil
}

// findFunc resolves names like "bifs.plus_n_ii" or "(*mlrval.Mlrval).Type" / "mlrval.Mlrval.Type".
func (l *Loaded) findFunc(name string) *ssa.Function {
	recv := ""
	ptr := false
	if strings.HasPrefix(name, "(") {
		i := strings.Index(name, ")")
		recv = name[1:i]
		name = name[i+2:]
		if strings.HasPrefix(recv, "*") {
			ptr = true
			recv = recv[1:]
		}
		dot := strings.LastIndex(recv, ".")
		pkgShort, tname := recv[:dot], recv[dot+1:]
		sp := l.ssaPkgByShort(pkgShort)
		if sp == nil {
			return nil
		}
		tn, _ := sp.Pkg.Scope().Lookup(tname).(*types.TypeName)
		if tn == nil {
			return nil
		}
		var t types.Type = tn.Type()
		if ptr {
			t = types.NewPointer(t)
		}
		ms := l.Prog.MethodSets.MethodSet(t)
		for i := 0; i < ms.Len(); i++ {
			if ms.At(i).Obj().Name() == name {
				return l.Prog.MethodValue(ms.At(i))
			}
		}
		return nil
	}
	dot := strings.LastIndex(name, ".")
	sp := l.ssaPkgByShort(name[:dot])
	if sp == nil {
		return nil
	}
	return sp.Func(name[dot+1:])
}

func (l *Loaded) ssaPkgByShort(short string) *ssa.Package {
	// short may be "bifs" or "transformers/utils" or a full import path
	for path, sp := range l.SSAPkgs {
		if path == short || path == modPath+"/pkg/"+short || strings.HasSuffix(path, "/pkg/"+short) {
			return sp
		}
	}
	for path, sp := range l.SSAPkgs {
		if strings.HasSuffix(path, "/"+short) {
			return sp
		}
	}
	return nil
}

func cmdSSADump(args []string) {
	l, err := loadRepo(nil, []string{"./pkg/..."})
	if err != nil {
		fmt.Fprintln(os.Stderr, err)
		os.Exit(3)
	}
	for _, a := range args {
		f := l.findFunc(a)
		if f == nil {
			fmt.Println("not found:", a)
			continue
		}
		f.WriteTo(os.Stdout)
	}
}
