package main

import (
	"path/filepath"
	"fmt"
	"os"
	"strings"
)

// loadAll: parse contracts, build overlay, load /repo, resolve.
func loadAll(extra []string) (*Loaded, *ContractSet, []string, error) {
	cs, err := parseContractFiles(extra)
	if err != nil {
		return nil, nil, nil, err
	}
	if err := cs.buildOverlay(); err != nil {
		return nil, nil, nil, err
	}
	overlayFiles = cs.Overlay
	l, err := loadRepo(cs.Overlay, []string{"./pkg/..."})
	if err != nil {
		return nil, nil, nil, err
	}
	drift := cs.resolve(l)
	return l, cs, drift, nil
}

func cmdVerify(args []string) {
	budget := 20
	verbose := false
	var names []string
	for _, a := range args {
		switch {
		case a == "-v":
			verbose = true
		case strings.HasPrefix(a, "-t="):
			fmt.Sscanf(a[3:], "%d", &budget)
		default:
			names = append(names, a)
		}
	}
	l, cs, drift, err := loadAll(nil)
	if err != nil {
		fmt.Fprintln(os.Stderr, err)
		os.Exit(3)
	}
	for _, d := range drift {
		fmt.Println("DRIFT:", d)
	}
	// interactive use: the monotone-counter invariants accepted in any committed claims file
	if files, err := filepath.Glob(filepath.Join(verifDir, "claims", "C*.txt")); err == nil {
		for _, f := range files {
			loadClaims(strings.TrimSuffix(filepath.Base(f), ".txt"), "thorough")
		}
	}
	if os.Getenv("MLRVC_MONO_ALL") != "" {
		monoMode = 1
	}
	var results []*FuncResult
	for _, ct := range cs.List {
		if ct.Fn == nil || ct.Trusted {
			continue
		}
		match := len(names) == 0
		for _, n := range names {
			if strings.Contains(ct.Qual, n) {
				match = true
			}
		}
		if !match {
			continue
		}
		results = append(results, verifyContract(l, cs, ct))
	}
	if len(names) > 0 {
		for _, tb := range cs.Tables {
			for _, n := range names {
				if strings.Contains(tb.Pkg+"."+tb.Global, n) {
					results = append(results, verifyTable(l, cs, tb))
				}
			}
		}
		for _, lm := range cs.Lemmas {
			for _, n := range names {
				if strings.Contains("lemma."+lm.Name, n) {
					results = append(results, verifyLemma(l, cs, lm))
				}
			}
		}
	}
	solveAll(results, budget, 16, nil)
	for _, r := range results {
		fmt.Printf("== %s (%s)\n", r.Name(), r.Mode)
		for _, u := range r.Unsupported {
			fmt.Println("   UNSUPPORTED:", u)
		}
		if verbose {
			for _, n := range r.Notes {
				fmt.Println("   note:", n)
			}
		}
		for _, o := range r.Obls {
			fmt.Printf("   %-8s %-7s %5.2fs %s\n", o.Result, o.Solver, o.TimeS, o.Name)
			if o.Result == "refuted" && verbose {
				for _, ob := range o.Obs {
					if v, ok := o.Model[ob.Label]; ok && !strings.Contains(ob.Label, "[") {
						fmt.Printf("        %s = %s\n", ob.Label, v)
					}
				}
			}
			if o.Result == "unknown" && verbose {
				fmt.Println("        ", strings.SplitN(o.RawOut, "\n", 3)[0])
			}
		}
	}
}
