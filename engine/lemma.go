package main

import (
	"fmt"
	"go/ast"
	"go/constant"
	"go/types"
	"sort"
	"strings"

	"golang.org/x/tools/go/ssa"
)

func collectNotes(c *Ctx) []string {
	var notes []string
	for n := range c.notes {
		notes = append(notes, n)
	}
	sort.Strings(notes)
	return notes
}

// verifyLemma: a closed formula over spec functions
func verifyLemma(l *Loaded, cs *ContractSet, lm *Lemma) *FuncResult {
	c := newCtx(l, lm.Mode)
	tr := &Translator{c: c, l: l, contracts: cs, loopMods: map[string]map[string]bool{}, inlineMax: 4, initMem: map[string]Sx{}}
	tr.oblPrefix = "lemma." + lm.Name
	st := &State{guard: "true", mem: map[string]Sx{}}
	tr.regKey("$alloc", nil, "Int")
	tr.regKey("$world", nil, "Int")
	env := &Env{tr: tr, vars: map[string]Val{}, st: st, old: st}
	g := tr.specBool(lm.Clause, env)
	c.addObl(&Obligation{Name: "lemma." + lm.Name, Kind: "lemma", Guard: "true", Goal: g, Pos: lm.Clause.Text, Func: "lemma." + lm.Name})
	return &FuncResult{Ctx: c, Obls: c.obls, Unsupported: c.unsupported, Notes: collectNotes(c), Mode: lm.Mode, Label: "lemma." + lm.Name, Tr: tr}
}

// verifyTable: static table invariant. Every cell of the global's composite-literal initialiser
// must satisfy specfn(indices..., cell); and no function other than the package initialiser may
// store into the global.
func verifyTable(l *Loaded, cs *ContractSet, tb *TableSpec) *FuncResult {
	c := newCtx(l, ModeInt)
	tr := &Translator{c: c, l: l, contracts: cs, loopMods: map[string]map[string]bool{}, inlineMax: 4, initMem: map[string]Sx{}}
	label := tb.Pkg + "." + tb.Global
	tr.oblPrefix = label
	res := &FuncResult{Ctx: c, Mode: ModeInt, Label: label, Tr: tr}
	fail := func(format string, a ...interface{}) *FuncResult {
		c.unsupp(format, a...)
		c.addObl(&Obligation{Name: label + "#table", Kind: "table", Guard: "true", Goal: "false", Pos: fmt.Sprintf(format, a...), Func: label})
		res.Obls, res.Unsupported = c.obls, c.unsupported
		return res
	}
	sp := l.ssaPkgByShort(tb.Pkg)
	if sp == nil {
		return fail("package %s not loaded", tb.Pkg)
	}
	pkg := l.ByPath[sp.Pkg.Path()]
	obj, _ := sp.Pkg.Scope().Lookup(tb.Global).(*types.Var)
	if obj == nil {
		return fail("global %s not found", tb.Global)
	}
	sf := cs.SpecDecls[sp.Pkg.Path()+"."+tb.SpecFn]
	if sf == nil {
		return fail("spec function %s not found", tb.SpecFn)
	}
	// initialiser
	var init ast.Expr
	for _, file := range pkg.Syntax {
		for _, d := range file.Decls {
			gd, ok := d.(*ast.GenDecl)
			if !ok {
				continue
			}
			for _, s := range gd.Specs {
				vs, ok := s.(*ast.ValueSpec)
				if !ok {
					continue
				}
				for i, n := range vs.Names {
					if pkg.TypesInfo.Defs[n] == obj && i < len(vs.Values) {
						init = vs.Values[i]
					}
				}
			}
		}
	}
	lit, ok := init.(*ast.CompositeLit)
	if !ok {
		return fail("global %s has no composite-literal initialiser", tb.Global)
	}
	st := &State{guard: "true", mem: map[string]Sx{}}
	tr.regKey("$alloc", nil, "Int")
	env := &Env{tr: tr, vars: map[string]Val{}, st: st, old: st, info: pkg.TypesInfo}
	type cell struct {
		idx []int64
		v   Val
	}
	var cells []cell
	var walk func(lit *ast.CompositeLit, t types.Type, prefix []int64) error
	walk = func(lit *ast.CompositeLit, t types.Type, prefix []int64) error {
		var elemT types.Type
		n := int64(-1)
		switch u := t.Underlying().(type) {
		case *types.Array:
			elemT, n = u.Elem(), u.Len()
		case *types.Slice:
			elemT = u.Elem()
		default:
			return fmt.Errorf("table %s: unsupported container %s", tb.Global, t)
		}
		next := int64(0)
		seen := map[int64]bool{}
		for _, el := range lit.Elts {
			k := next
			ve := el
			if kv, ok := el.(*ast.KeyValueExpr); ok {
				tv := pkg.TypesInfo.Types[kv.Key]
				if tv.Value == nil {
					return fmt.Errorf("non-constant key in %s", tb.Global)
				}
				k, _ = constant.Int64Val(constant.ToInt(tv.Value))
				ve = kv.Value
			}
			next = k + 1
			seen[k] = true
			idx := append(append([]int64{}, prefix...), k)
			if inner, ok := ve.(*ast.CompositeLit); ok {
				if _, isArr := elemT.Underlying().(*types.Array); isArr {
					if err := walk(inner, elemT, idx); err != nil {
						return err
					}
					continue
				}
			}
			cells = append(cells, cell{idx, env.expr(ve)})
		}
		// missing cells of a fixed-size array are zero values
		if n >= 0 {
			for k := int64(0); k < n; k++ {
				if !seen[k] {
					idx := append(append([]int64{}, prefix...), k)
					if inner, isArr := elemT.Underlying().(*types.Array); isArr {
						for j := int64(0); j < inner.Len(); j++ {
							cells = append(cells, cell{append(append([]int64{}, idx...), j), Val{t: c.zeroOf(inner.Elem()), typ: inner.Elem()}})
						}
					} else {
						cells = append(cells, cell{idx, Val{t: c.zeroOf(elemT), typ: elemT}})
					}
				}
			}
		}
		return nil
	}
	if err := walk(lit, obj.Type(), nil); err != nil {
		return fail("%v", err)
	}
	// one obligation per cell (solved in one incremental solver run per table)
	nparams := 0
	for _, fld := range sf.Decl.Type.Params.List {
		nparams += len(fld.Names)
	}
	byIdx := map[string]Val{}
	for _, cl := range cells {
		byIdx[fmt.Sprint(cl.idx)] = cl.v
	}
	for _, cl := range cells {
		var args []Val
		name := label + "#table"
		for _, i := range cl.idx {
			args = append(args, Val{t: c.it.iconst(i), typ: types.Typ[types.Int]})
			name += fmt.Sprintf("[%d]", i)
		}
		args = append(args, cl.v)
		if nparams == len(cl.idx)+2 && len(cl.idx) == 2 {
			tv, ok := byIdx[fmt.Sprint([]int64{cl.idx[1], cl.idx[0]})]
			if !ok {
				tv = Val{t: "0", typ: cl.v.typ}
			}
			args = append(args, tv)
		}
		g := env.inlineSpecVals(sf, args, types.Typ[types.Bool]).t
		c.addObl(&Obligation{Name: name, Kind: "table", Guard: "true", Goal: g, Pos: tb.SpecFn, Func: label})
	}
	if tb.Len >= 0 {
		goal := "false"
		if len(cells) == tb.Len {
			goal = "true"
		}
		c.addObl(&Obligation{Name: label + "#table.len", Kind: "table", Guard: "true", Goal: goal, Pos: fmt.Sprintf("table has %d cells, contract requires %d", len(cells), tb.Len), Func: label})
	}
	// frame: no other store
	g := sp.Var(tb.Global)
	bad := ""
	for _, m := range sp.Members {
		fn, ok := m.(*ssa.Function)
		if !ok || fn.Name() == "init" {
			continue
		}
		if w := storesTo(fn, g); w != "" {
			bad = w
		}
		for _, an := range fn.AnonFuncs {
			if w := storesTo(an, g); w != "" {
				bad = w
			}
		}
	}
	goal := "true"
	if bad != "" {
		goal = "false"
	}
	c.addObl(&Obligation{Name: label + "#table.frame", Kind: "table", Guard: "true", Goal: goal, Pos: "no store to the table outside the package initialiser " + bad, Func: label})
	res.Obls, res.Unsupported, res.Notes = c.obls, c.unsupported, collectNotes(c)
	return res
}

// storesTo: does fn store into (or leak the address of) global g?
func storesTo(fn *ssa.Function, g *ssa.Global) string {
	derived := map[ssa.Value]bool{}
	for _, b := range fn.Blocks {
		for _, in := range b.Instrs {
			for _, op := range in.Operands(nil) {
				if op == nil || *op == nil {
					continue
				}
				if *op != ssa.Value(g) && !derived[*op] {
					continue
				}
				switch x := in.(type) {
				case *ssa.IndexAddr:
					derived[x] = true
				case *ssa.FieldAddr:
					derived[x] = true
				case *ssa.UnOp, *ssa.DebugRef:
				case *ssa.Store:
					if x.Addr == *op {
						return "(store in " + fn.Name() + ")"
					}
					return "(address stored in " + fn.Name() + ")"
				default:
					return "(address escapes in " + fn.Name() + ")"
				}
			}
		}
	}
	return ""
}

func (e *Env) inlineSpecVals(sf *specFunc, args []Val, rt types.Type) Val {
	vars := map[string]Val{}
	i := 0
	for _, fld := range sf.Decl.Type.Params.List {
		for _, nm := range fld.Names {
			if i < len(args) {
				vars[nm.Name] = args[i]
			}
			i++
		}
	}
	ne := &Env{tr: e.tr, vars: vars, st: e.st, old: e.old, info: sf.Info, depth: e.depth + 1, qdepth: e.qdepth, havocked: e.havocked}
	v := ne.block(sf.Decl.Body.List, rt)
	v.typ = rt
	return v
}

func classMembers(cs *ContractSet, name string) []*Contract {
	if m, ok := cs.Classes[name]; ok {
		return m
	}
	// allow unqualified lookups when unique
	var out []*Contract
	for k, m := range cs.Classes {
		if strings.HasSuffix(k, "."+name) {
			out = append(out, m...)
		}
	}
	return out
}
