package main

import (
	"fmt"
	"go/token"
	"go/types"
	"strings"

	"golang.org/x/tools/go/ssa"
)

var I64 = intKind{64, true}

// execInstr returns false when the block is finished (terminator executed).
func (f *Frame) execInstr(b *ssa.BasicBlock, st *State, in ssa.Instruction) bool {
	tr := f.tr
	c := tr.c
	switch x := in.(type) {
	case *ssa.DebugRef:
		return true
	case *ssa.BinOp:
		f.vals[x] = f.binop(st, x)
	case *ssa.UnOp:
		f.vals[x] = f.unop(b, st, x)
	case *ssa.Convert:
		f.vals[x] = f.convert(b, st, x.X.Type(), x.Type(), f.val(x.X))
	case *ssa.ChangeType:
		v := f.val(x.X)
		v.typ = x.Type()
		f.vals[x] = v
	case *ssa.ChangeInterface:
		v := f.val(x.X)
		v.typ = x.Type()
		f.vals[x] = v
	case *ssa.MakeInterface:
		v := f.val(x.X)
		xt := x.X.Type()
		if v.addr != nil {
			c.unsupp("interior pointer boxed in interface in %s", f.fn.Name())
		}
		if _, isIface := xt.Underlying().(*types.Interface); isIface {
			f.vals[x] = Val{t: v.t, typ: x.Type()}
			break
		}
		con, _ := c.ifaceCon(xt)
		f.vals[x] = Val{t: c.define(x.Name(), "Iface", sx(con, v.t)), typ: x.Type()}
	case *ssa.TypeAssert:
		f.vals[x] = f.typeAssert(st, x)
	case *ssa.Extract:
		tv := f.val(x.Tuple)
		if x.Index < len(tv.tup) {
			v := tv.tup[x.Index]
			v.typ = x.Type()
			f.vals[x] = v
		} else {
			c.unsupp("extract from non-tuple in %s", f.fn.Name())
			f.vals[x] = Val{t: c.declConst("ext", c.sortOf(x.Type())), typ: x.Type()}
		}
	case *ssa.Alloc:
		f.vals[x] = f.alloc(b, st, x)
	case *ssa.FieldAddr:
		base := f.val(x.X)
		pt := derefType(x.X.Type())
		stt := pt.Underlying().(*types.Struct)
		if base.addr == nil {
			f.nilCheck(st, base, in)
		}
		a := tr.addrOf(base, x.X.Type())
		f.vals[x] = Val{addr: &Addr{key: a.key + "." + stt.Field(x.Field).Name(), idxs: a.idxs, typ: stt.Field(x.Field).Type(), gl: a.gl}, typ: x.Type()}
	case *ssa.Field:
		v := f.val(x.X)
		stt := x.X.Type().Underlying().(*types.Struct)
		s := c.sortOf(x.X.Type())
		f.vals[x] = Val{t: c.define(x.Name(), c.sortOf(x.Type()), sx(s+"."+sym(stt.Field(x.Field).Name()), v.t)), typ: x.Type()}
	case *ssa.IndexAddr:
		f.vals[x] = f.indexAddr(st, x)
	case *ssa.Index:
		f.vals[x] = f.index(st, x)
	case *ssa.Slice:
		f.vals[x] = f.sliceOp(b, st, x)
	case *ssa.Store:
		av := f.val(x.Addr)
		if av.addr == nil {
			f.nilCheck(st, av, in)
		}
		a := tr.addrOf(av, x.Addr.Type())
		v := f.val(x.Val)
		if v.addr != nil || v.clo != nil || v.rng != nil {
			if pa := plainRef(v.addr); pa != "" {
				v = Val{t: pa, typ: v.typ}
			} else {
				c.unsupp("store of non-term value in %s", f.fn.Name())
				v = Val{t: c.declConst("opaque", c.sortOf(x.Val.Type())), typ: x.Val.Type()}
			}
		}
		f.store(st, a, v, b.Index)
	case *ssa.Call:
		f.vals[x] = f.call(b, st, x, &x.Call)
	case *ssa.MakeSlice:
		f.vals[x] = f.makeSlice(b, st, x)
	case *ssa.MakeMap:
		f.vals[x] = f.makeMap(b, st, x)
	case *ssa.MapUpdate:
		f.mapUpdate(b, st, x)
	case *ssa.Lookup:
		f.vals[x] = f.lookup(st, x)
	case *ssa.MakeClosure:
		var bs []Val
		for _, bv := range x.Bindings {
			bs = append(bs, f.val(bv))
		}
		fn := x.Fn.(*ssa.Function)
		f.vals[x] = Val{t: c.funcID(fn), clo: x, cloB: bs, fn: fn, typ: x.Type()}
	case *ssa.Range:
		f.vals[x] = f.rangeStart(b, st, x)
	case *ssa.Next:
		f.vals[x] = f.rangeNext(b, st, x)
	case *ssa.MakeChan:
		c.note("channel operations abstracted (values received are havoc, no interleaving semantics)")
		f.vals[x] = f.freshRef(b, st, x.Type())
	case *ssa.Send:
		c.note("channel operations abstracted (values received are havoc, no interleaving semantics); each send increments the ghost counter 'sent' of the channel")
		{
			key := "X:sent"
			tr.regKey(key, []Sx{"Int"}, c.it.isort())
			ch := f.val(x.Chan)
			old := tr.memGet(st, key)
			st.mem[key] = c.define("H_"+key, tr.memSortFull(key), sx("store", old, ch.t, c.it.addNW(sx("select", old, ch.t), c.it.iconst(1))))
			f.noteWrite(key, b.Index)
		}
	case *ssa.Select:
		c.note("channel operations abstracted (values received are havoc, no interleaving semantics)")
		var tup []Val
		tt := x.Type().(*types.Tuple)
		for i := 0; i < tt.Len(); i++ {
			v := Val{t: c.declConst("sel", c.sortOf(tt.At(i).Type())), typ: tt.At(i).Type()}
			st.guard = and(append([]Sx{st.guard}, tr.typeFacts(st, v)...)...)
			tup = append(tup, v)
		}
		f.vals[x] = Val{tup: tup}
		f.havocAll(b, st, "select")
	case *ssa.Go:
		c.note("go statement: spawned goroutine not modelled; all heap havocked")
		f.havocAll(b, st, "go")
	case *ssa.Defer:
		f.defers = append(f.defers, x)
		if len(f.loops) > 0 {
			for _, li := range f.loops {
				if li.body[b.Index] {
					c.unsupp("defer inside loop in %s", f.fn.Name())
				}
			}
		}
	case *ssa.RunDefers:
		for i := len(f.defers) - 1; i >= 0; i-- {
			d := f.defers[i]
			if !d.Block().Dominates(b) {
				c.unsupp("conditional defer in %s", f.fn.Name())
			}
			f.call(b, st, nil, &d.Call)
		}
	case *ssa.Panic:
		f.safetyObl(st, "panic", "false", in)
		return false
	case *ssa.Return:
		var rs []Val
		for _, r := range x.Results {
			rs = append(rs, f.val(r))
		}
		f.rets = append(f.rets, retPoint{st: st, vals: rs})
		return false
	case *ssa.Jump:
		f.takeEdge(b, b.Succs[0], st)
		return false
	case *ssa.If:
		cond := f.val(x.Cond).t
		st1 := st.clone()
		st1.guard = c.defineBool(fmt.Sprintf("g_b%d_t", b.Index), and(st.guard, cond))
		st2 := st.clone()
		st2.guard = c.defineBool(fmt.Sprintf("g_b%d_f", b.Index), and(st.guard, not(cond)))
		f.takeEdge(b, b.Succs[0], st1)
		f.takeEdge(b, b.Succs[1], st2)
		return false
	case *ssa.SliceToArrayPointer, *ssa.MultiConvert:
		c.unsupp("instruction %T in %s", in, f.fn.Name())
		if v, ok := in.(ssa.Value); ok {
			f.vals[v] = Val{t: c.declConst("unsup", c.sortOf(v.Type())), typ: v.Type()}
		}
	default:
		c.unsupp("instruction %T in %s", in, f.fn.Name())
		if v, ok := in.(ssa.Value); ok {
			f.vals[v] = Val{t: c.declConst("unsup", c.sortOf(v.Type())), typ: v.Type()}
		}
	}
	return true
}

// plainRef: an address that denotes a whole heap object can be used as a plain reference
func plainRef(a *Addr) Sx {
	if a == nil {
		return ""
	}
	if len(a.idxs) == 1 && (strings.HasPrefix(a.key, "F:") || strings.HasPrefix(a.key, "P:")) && !strings.Contains(a.key[2:], ".") {
		// F:<type> or P:<type> exactly (no field path). Type strings may contain dots in package
		// qualifiers; field paths are appended with "." after the type, so compare with the type name.
		if a.key == "F:"+shortType(a.typ) || a.key == "P:"+shortType(a.typ) {
			return a.idxs[0]
		}
	}
	if len(a.idxs) == 1 && (a.key == "F:"+shortType(a.typ) || a.key == "P:"+shortType(a.typ)) {
		return a.idxs[0]
	}
	return ""
}

// arrayObjRef: the reference of a whole array object (from `new [N]T`), or ""
func arrayObjRef(base Val) Sx {
	if base.addr == nil {
		return base.t
	}
	return plainRef(base.addr)
}

func (f *Frame) nilCheck(st *State, v Val, in ssa.Instruction) {
	if v.t == "" {
		return
	}
	if f.tr.nilChecks() {
		f.safetyObl(st, "nil", not(eq(v.t, "0")), in)
	} else {
		// assumed: see trusted base
		f.tr.c.note("nil dereferences are not checked (pointer operands assumed non-nil where dereferenced)")
		st.guard = and(st.guard, not(eq(v.t, "0")))
	}
}

func (tr *Translator) nilChecks() bool {
	return tr.topC != nil && tr.topC.NilChecks
}

func (f *Frame) freshRef(b *ssa.BasicBlock, st *State, t types.Type) Val {
	tr := f.tr
	c := tr.c
	al := tr.allocTerm(st)
	r := c.define("ref", "Int", al)
	st.mem["$alloc"] = c.define("alloc", "Int", sx("+", al, "1"))
	f.noteWrite("$alloc", b.Index)
	// allocated refs are positive
	st.guard = and(st.guard, sx("<", "0", r))
	return Val{t: r, typ: t}
}

func (f *Frame) alloc(b *ssa.BasicBlock, st *State, x *ssa.Alloc) Val {
	tr := f.tr
	v := f.freshRef(b, st, x.Type())
	// zero-initialise
	if arr, ok := derefType(x.Type()).Underlying().(*types.Array); ok {
		if _, isStruct := arr.Elem().Underlying().(*types.Struct); !isStruct {
			f.zeroElems(b, st, v.t, arr.Elem())
			return v
		}
	}
	if ts := shortType(derefType(x.Type())); ts == "bytes.Buffer" || ts == "strings.Builder" {
		ln, _ := tr.bufKeys()
		st.mem[ln] = tr.c.define("H_"+ln, tr.memSortFull(ln), sx("store", tr.memGet(st, ln), v.t, tr.c.it.iconst(0)))
		f.noteWrite(ln, b.Index)
		return v
	}
	a := tr.addrOf(v, x.Type())
	f.storeZero(st, a, b.Index)
	return v
}

func (f *Frame) storeZero(st *State, a *Addr, blk int) {
	if u, ok := a.typ.Underlying().(*types.Struct); ok {
		for i := 0; i < u.NumFields(); i++ {
			f.storeZero(st, &Addr{key: a.key + "." + u.Field(i).Name(), idxs: a.idxs, typ: u.Field(i).Type()}, blk)
		}
		return
	}
	f.store(st, a, Val{t: f.tr.c.zeroOf(a.typ), typ: a.typ}, blk)
}

func (f *Frame) havocAll(b *ssa.BasicBlock, st *State, why string) {
	tr := f.tr
	c := tr.c
	preserved := map[string]bool{}
	if tr.topC != nil {
		for _, k := range tr.topC.Preserves {
			preserved[k] = true
		}
		if len(tr.topC.Preserves) > 0 {
			c.note("TRUSTED FRAME in " + tr.topC.Qual + ": code of unknown effect called from it (function values, interface methods, channel operations) is assumed not to write " + strings.Join(tr.topC.Preserves, " "))
		}
	}
	for _, k := range sortedKeys(c.memSorts) {
		if preserved[k] {
			continue
		}
		if k == "$alloc" {
			old := tr.memGet(st, k)
			st.mem[k] = c.declConst("alloc_h", "Int")
			st.guard = and(st.guard, sx("<=", old, st.mem[k]))
		} else if strings.HasPrefix(k, "R:") {
			continue
		} else if strings.HasPrefix(k, "G:") && tr.immutableGlobalKey(k) {
			continue // never stored to outside its initialiser (static scan)
		} else {
			st.mem[k] = c.declConst("Hh_"+k, tr.memSortFull(k))
		}
		f.noteWrite(k, b.Index)
	}
	f.noteWrite("*", b.Index)
	tr.havocGuards = append(tr.havocGuards, st.guard)
	tr.assumeGlobalInvs(st)
}

func (tr *Translator) immutableGlobalKey(k string) bool {
	base := k
	if i := strings.Index(k[2:], "["); i >= 0 {
		base = k[:i+2]
	}
	// struct-typed globals have field paths after the variable name: try progressively shorter prefixes
	for {
		if g := tr.l.globalByKey(base); g != nil {
			return tr.l.globalInfoOf(g).immutable
		}
		i := strings.LastIndex(base, ".")
		if i < 3 {
			return false
		}
		base = base[:i]
	}
}

// ---------------------------------------------------------------------------------------------
// arithmetic
// ---------------------------------------------------------------------------------------------

func (f *Frame) binop(st *State, x *ssa.BinOp) Val {
	tr := f.tr
	a, b := f.val(x.X), f.val(x.Y)
	v := tr.binopT(st, x.Op, x.X.Type(), x.Y.Type(), x.Type(), a, b, func(goal Sx, kind string) { f.safetyObl(st, kind, goal, x) })
	if strings.ContainsAny(v.t, " (") {
		v.t = tr.c.define(x.Name(), tr.c.sortOf(x.Type()), v.t)
	}
	return v
}

func (tr *Translator) binopT(st *State, op token.Token, xt, yt, rt types.Type, a, b Val, check func(goal Sx, kind string)) Val {
	c := tr.c
	it := c.it
	res := func(t Sx) Val { return Val{t: t, typ: rt} }
	if k, ok := typeIntKind(xt); ok {
		switch op {
		case token.ADD:
			return res(it.add(k, a.t, b.t))
		case token.SUB:
			return res(it.sub(k, a.t, b.t))
		case token.MUL:
			return res(it.mul(k, a.t, b.t))
		case token.QUO:
			check(not(eq(b.t, it.konst(k, bigInt(0)))), "div0")
			return res(it.quo(k, a.t, b.t))
		case token.REM:
			check(not(eq(b.t, it.konst(k, bigInt(0)))), "div0")
			return res(it.rem(k, a.t, b.t))
		case token.AND:
			return res(it.band(k, a.t, b.t))
		case token.OR:
			return res(it.bor(k, a.t, b.t))
		case token.XOR:
			return res(it.bxor(k, a.t, b.t))
		case token.AND_NOT:
			return res(it.bandnot(k, a.t, b.t))
		case token.SHL, token.SHR:
			yk, _ := typeIntKind(yt)
			var n Sx
			if it.mode == ModeBV {
				if yk.signed {
					check(it.le(yk, it.konst(yk, bigInt(0)), b.t), "shift")
				}
				// count as unsigned value of k.bits bits, saturating
				if yk.bits > k.bits {
					big := sx("bvuge", b.t, it.konst(intKind{yk.bits, false}, bigInt(int64(k.bits))))
					n = ite(big, it.konst(intKind{k.bits, false}, bigInt(int64(k.bits))), sx(fmt.Sprintf("(_ extract %d 0)", k.bits-1), b.t))
				} else if yk.bits < k.bits {
					n = sx(fmt.Sprintf("(_ zero_extend %d)", k.bits-yk.bits), b.t)
				} else {
					n = b.t
				}
			} else {
				if yk.signed {
					check(sx("<=", "0", b.t), "shift")
				}
				n = b.t
			}
			if op == token.SHL {
				return res(it.shl(k, a.t, n))
			}
			return res(it.shr(k, a.t, n))
		case token.EQL:
			return res(eq(a.t, b.t))
		case token.NEQ:
			return res(not(eq(a.t, b.t)))
		case token.LSS:
			return res(it.lt(k, a.t, b.t))
		case token.LEQ:
			return res(it.le(k, a.t, b.t))
		case token.GTR:
			return res(it.lt(k, b.t, a.t))
		case token.GEQ:
			return res(it.le(k, b.t, a.t))
		}
	}
	if _, ok := isFloatType(xt); ok {
		switch op {
		case token.ADD:
			return res(sx("fp.add", "RNE", a.t, b.t))
		case token.SUB:
			return res(sx("fp.sub", "RNE", a.t, b.t))
		case token.MUL:
			return res(sx("fmulX", a.t, b.t))
		case token.QUO:
			return res(sx("fdivX", a.t, b.t))
		case token.EQL:
			return res(sx("fp.eq", a.t, b.t))
		case token.NEQ:
			return res(not(sx("fp.eq", a.t, b.t)))
		case token.LSS:
			return res(sx("fp.lt", a.t, b.t))
		case token.LEQ:
			return res(sx("fp.leq", a.t, b.t))
		case token.GTR:
			return res(sx("fp.gt", a.t, b.t))
		case token.GEQ:
			return res(sx("fp.geq", a.t, b.t))
		}
	}
	if isBoolType(xt) {
		switch op {
		case token.EQL:
			return res(eq(a.t, b.t))
		case token.NEQ:
			return res(not(eq(a.t, b.t)))
		case token.AND, token.LAND:
			return res(and(a.t, b.t))
		case token.OR, token.LOR:
			return res(or(a.t, b.t))
		}
	}
	if isStringType(xt) {
		switch op {
		case token.EQL:
			return res(tr.strEq(a.t, b.t))
		case token.NEQ:
			return res(not(tr.strEq(a.t, b.t)))
		case token.ADD:
			return res(tr.strConcat(a.t, b.t))
		case token.LSS, token.LEQ, token.GTR, token.GEQ:
			c.declFun("str_lt", []Sx{"Str", "Str"}, "Bool")
			c.note("string ordering is an uninterpreted strict order (str_lt)")
			switch op {
			case token.LSS:
				return res(sx("str_lt", a.t, b.t))
			case token.GTR:
				return res(sx("str_lt", b.t, a.t))
			case token.LEQ:
				return res(not(sx("str_lt", b.t, a.t)))
			default:
				return res(not(sx("str_lt", a.t, b.t)))
			}
		}
	}
	// pointers, interfaces, funcs, chans, maps: == and != only
	switch op {
	case token.EQL, token.NEQ:
		at, bt := a.t, b.t
		if a.addr != nil {
			at = plainRef(a.addr)
		}
		if b.addr != nil {
			bt = plainRef(b.addr)
		}
		if _, isSlice := xt.Underlying().(*types.Slice); isSlice {
			// only comparison with nil is legal
			e := eq(sx("sl_arr", at), "0")
			if at == "" || strings.Contains(at, "mk_slice 0") {
				e = eq(sx("sl_arr", bt), "0")
			}
			if op == token.NEQ {
				e = not(e)
			}
			return res(e)
		}
		if at == "" || bt == "" {
			c.unsupp("comparison of interior pointers")
			return res(c.declConst("cmp", "Bool"))
		}
		if op == token.EQL {
			return res(eq(at, bt))
		}
		return res(not(eq(at, bt)))
	}
	c.unsupp("binop %s on %s", op, xt)
	return res(c.declConst("binop", c.sortOf(rt)))
}

// strEq: Go string equality. Comparison with a literal is spelled out byte by byte
// (quantifier-free and complete in both directions); otherwise equality of the Str values.
func (tr *Translator) strEq(a, b Sx) Sx {
	c := tr.c
	it := c.it
	lit, other := "", ""
	var ls string
	for s, n := range c.strLits {
		if n == a {
			lit, other, ls = a, b, s
		} else if n == b {
			lit, other, ls = b, a, s
		}
	}
	if lit == "" || len(ls) > 32 {
		return eq(a, b)
	}
	if _, ok := tr.litLen(other); ok {
		if other == lit {
			return "true"
		}
		return "false"
	}
	var cs []Sx
	cs = append(cs, eq(sx("slen", other), it.iconst(int64(len(ls)))))
	for i := 0; i < len(ls); i++ {
		cs = append(cs, eq(sx("sat", other, it.iconst(int64(i))), it.konst(intKind{8, false}, bigInt(int64(ls[i])))))
	}
	return and(cs...)
}

func (tr *Translator) strConcat(a, b Sx) Sx {
	c := tr.c
	c.declFun("sconcat", []Sx{"Str", "Str"}, "Str")
	t := sx("sconcat", a, b)
	n := c.define("cat", "Str", t)
	it := c.it
	la, lb := sx("slen", a), sx("slen", b)
	c.axiom(n, eq(sx("slen", n), it.add(I64, la, lb)))
	c.softAxiom(n, and(eq(sx("slen", n), it.add(I64, la, lb)),
		fmt.Sprintf("(forall ((k %s)) (! (=> (and %s %s) (= (sat %s k) (ite %s (sat %s k) (sat %s %s)))) :pattern ((sat %s k))))",
			it.isort(), it.le(I64, it.iconst(0), "k"), it.lt(I64, "k", sx("slen", n)), n, it.lt(I64, "k", la), a, b, it.sub(I64, "k", la), n)))
	return n
}

func (f *Frame) unop(b *ssa.BasicBlock, st *State, x *ssa.UnOp) Val {
	tr := f.tr
	c := tr.c
	v := f.val(x.X)
	switch x.Op {
	case token.MUL: // load
		if v.addr == nil {
			f.nilCheck(st, v, x)
		}
		a := tr.addrOf(v, x.X.Type())
		r := tr.load(st, a)
		r.t = c.define(x.Name(), c.sortOf(x.Type()), r.t)
		r.typ = x.Type()
		if a.gl != nil {
			r.gl = a.gl
			if _, isSig := x.Type().Underlying().(*types.Signature); isSig {
				gi := tr.l.globalInfoOf(a.gl)
				if gi.candsKnown && len(gi.cands) > 0 {
					sig := x.Type().Underlying().(*types.Signature)
					for _, cand := range gi.cands {
						cs := cand.Signature
						if cs.Recv() == nil && types.Identical(types.NewSignatureType(nil, nil, nil, cs.Params(), cs.Results(), cs.Variadic()), types.NewSignatureType(nil, nil, nil, sig.Params(), sig.Results(), sig.Variadic())) {
							r.cands = append(r.cands, cand)
						}
					}
				}
			}
		}
		if facts := tr.typeFacts(st, r); len(facts) > 0 {
			st.guard = and(append([]Sx{st.guard}, facts...)...)
		}
		return r
	case token.NOT:
		return Val{t: not(v.t), typ: x.Type()}
	case token.SUB:
		if k, ok := typeIntKind(x.Type()); ok {
			return Val{t: c.define(x.Name(), c.sortOf(x.Type()), c.it.neg(k, v.t)), typ: x.Type()}
		}
		return Val{t: sx("fp.neg", v.t), typ: x.Type()}
	case token.XOR:
		k, _ := typeIntKind(x.Type())
		return Val{t: c.it.bnot(k, v.t), typ: x.Type()}
	case token.ARROW:
		c.note("channel operations abstracted (values received are havoc, no interleaving semantics)")
		f.havocAll(b, st, "recv")
		if x.CommaOk {
			tt := x.Type().(*types.Tuple)
			r := Val{t: c.declConst("recv", c.sortOf(tt.At(0).Type())), typ: tt.At(0).Type()}
			st.guard = and(append([]Sx{st.guard}, tr.typeFacts(st, r)...)...)
			return Val{tup: []Val{r, {t: c.declConst("recvok", "Bool")}}}
		}
		r := Val{t: c.declConst("recv", c.sortOf(x.Type())), typ: x.Type()}
		st.guard = and(append([]Sx{st.guard}, tr.typeFacts(st, r)...)...)
		return r
	}
	c.unsupp("unop %s", x.Op)
	return Val{t: c.declConst("unop", c.sortOf(x.Type())), typ: x.Type()}
}

func (f *Frame) convert(b *ssa.BasicBlock, st *State, from, to types.Type, v Val) Val {
	tr := f.tr
	c := tr.c
	it := c.it
	// string -> []byte : a fresh backing array holding the bytes of the string
	if sl, ok := to.Underlying().(*types.Slice); ok && isStringType(from) {
		if k, ok := typeIntKind(sl.Elem()); ok && k.bits == 8 {
			r := f.freshRef(b, st, to)
			key := "E:" + shortType(sl.Elem())
			tr.regKey(key, []Sx{"Int", it.isort()}, c.sortOf(sl.Elem()))
			na := sx("sbytes", v.t) // the backing array is exactly the byte view of the string
			cur := tr.memGet(st, key)
			st.mem[key] = c.define("H_"+key, tr.memSortFull(key), sx("store", cur, r.t, na))
			f.noteWrite(key, b.Index)
			n := sx("slen", v.t)
			return Val{t: c.define("bytes", "Slice", sx("mk_slice", r.t, it.iconst(0), n, n)), typ: to}
		}
	}
	// []byte -> string : a string with the bytes of the slice (at conversion time)
	if sl, ok := from.Underlying().(*types.Slice); ok && isStringType(to) {
		if k, ok := typeIntKind(sl.Elem()); ok && k.bits == 8 {
			key := "E:" + shortType(sl.Elem())
			tr.regKey(key, []Sx{"Int", it.isort()}, c.sortOf(sl.Elem()))
			s := c.declConst("str", "Str")
			arr := sx("select", tr.memGet(st, key), sx("sl_arr", v.t))
			c.axiom(s, eq(sx("slen", s), sx("sl_len", v.t)))
			c.softAxiom(s, fmt.Sprintf("(forall ((k %s)) (! (=> (and %s %s) (= (sat %s k) (select %s %s))) :pattern ((sat %s k))))",
				it.isort(), it.le(I64, it.iconst(0), "k"), it.lt(I64, "k", sx("sl_len", v.t)), s, arr, it.add(I64, sx("sl_off", v.t), "k"), s))
			return Val{t: s, typ: to}
		}
	}
	return tr.convertT(from, to, v)
}

func (tr *Translator) convertT(from, to types.Type, v Val) Val {
	c := tr.c
	it := c.it
	fk, fInt := typeIntKind(from)
	tk, tInt := typeIntKind(to)
	fb, fFlt := isFloatType(from)
	tb, tFlt := isFloatType(to)
	fpSort := func(bits int) string {
		if bits == 32 {
			return "(_ to_fp 8 24)"
		}
		return "(_ to_fp 11 53)"
	}
	switch {
	case fInt && tInt:
		return Val{t: it.conv(fk, tk, v.t), typ: to}
	case fInt && tFlt:
		if it.mode == ModeBV {
			if fk.signed {
				if fk.bits == 64 && tb == 64 {
					return Val{t: sx("s2fX", v.t), typ: to}
				}
				return Val{t: sx(fpSort(tb), "RNE", v.t), typ: to}
			}
			return Val{t: sx(strings.Replace(fpSort(tb), "to_fp", "to_fp_unsigned", 1), "RNE", v.t), typ: to}
		}
		return Val{t: sx(fpSort(tb), "RNE", sx("to_real", v.t)), typ: to}
	case fFlt && tInt:
		// Go spec: if the value cannot be represented the result is implementation-dependent:
		// modelled as an unspecified value (SMT-LIB leaves fp.to_sbv unspecified out of range too).
		c.note("float->int conversion outside the target range (or of NaN) yields an unspecified value, as in the Go spec")
		if it.mode == ModeBV {
			if tk.signed {
				if tk.bits == 64 && fb == 64 {
					return Val{t: sx("f2sX", v.t), typ: to}
				}
				return Val{t: sx(fmt.Sprintf("(_ fp.to_sbv %d)", tk.bits), "RTZ", v.t), typ: to}
			}
			return Val{t: sx(fmt.Sprintf("(_ fp.to_ubv %d)", tk.bits), "RTZ", v.t), typ: to}
		}
		c.declFun("f2i_unspec", []Sx{F64}, "Int")
		x := v.t
		if fb == 32 {
			x = sx("(_ to_fp 11 53)", "RNE", v.t)
		}
		r := sx("fp.to_real", sx("fp.roundToIntegral", "RTZ", x))
		ti := sx("to_int", r)
		ok := and(not(sx("fp.isNaN", x)), not(sx("fp.isInfinite", x)), it.inRange(tk, ti))
		return Val{t: ite(ok, ti, it.wrap(tk, sx("f2i_unspec", x))), typ: to}
	case fFlt && tFlt:
		if fb == tb {
			return Val{t: v.t, typ: to}
		}
		return Val{t: sx(fpSort(tb), "RNE", v.t), typ: to}
	}
	// string <-> []byte / []rune / rune
	if isStringType(to) {
		if fInt {
			c.declFun("rune2str", []Sx{it.isort()}, "Str")
			return Val{t: sx("rune2str", it.conv(fk, I64, v.t)), typ: to}
		}
		if sl, ok := from.Underlying().(*types.Slice); ok {
			if k, ok := typeIntKind(sl.Elem()); ok && k.bits == 8 {
				return tr.bytesToString(nil, v, to)
			}
			c.declFun("runes2str", []Sx{"Slice"}, "Str")
			c.note("[]rune -> string conversion is uninterpreted")
			return Val{t: sx("runes2str", v.t), typ: to}
		}
	}
	if isStringType(from) {
		if _, ok := to.Underlying().(*types.Slice); ok {
			c.unsupp("string -> slice conversion outside call context")
			return Val{t: c.declConst("conv", "Slice"), typ: to}
		}
	}
	// pointer/unsafe conversions etc.
	if c.sortOf(from) == c.sortOf(to) {
		return Val{t: v.t, typ: to}
	}
	c.unsupp("convert %s -> %s", from, to)
	return Val{t: c.declConst("conv", c.sortOf(to)), typ: to}
}

func (tr *Translator) bytesToString(st *State, v Val, to types.Type) Val {
	c := tr.c
	c.unsupp("[]byte -> string conversion")
	return Val{t: c.declConst("b2s", "Str"), typ: to}
}

func (f *Frame) typeAssert(st *State, x *ssa.TypeAssert) Val {
	tr := f.tr
	c := tr.c
	v := f.val(x.X)
	if _, isIface := x.AssertedType.Underlying().(*types.Interface); isIface {
		ok := c.declConst("ta_ok", "Bool")
		if x.CommaOk {
			return Val{tup: []Val{{t: v.t, typ: x.AssertedType}, {t: ok, typ: types.Typ[types.Bool]}}}
		}
		f.safetyObl(st, "typeassert", ok, x)
		return Val{t: v.t, typ: x.AssertedType}
	}
	con, sel := c.ifaceCon(x.AssertedType)
	is := sx(fmt.Sprintf("(_ is %s)", con), v.t)
	pay := sx(sel, v.t)
	if x.CommaOk {
		okv := c.defineBool("ta_ok", is)
		return Val{tup: []Val{{t: c.define(x.Name(), c.sortOf(x.AssertedType), ite(okv, pay, c.zeroOf(x.AssertedType))), typ: x.AssertedType}, {t: okv, typ: types.Typ[types.Bool]}}}
	}
	f.safetyObl(st, "typeassert", is, x)
	r := Val{t: c.define(x.Name(), c.sortOf(x.AssertedType), pay), typ: x.AssertedType}
	if facts := tr.typeFacts(st, r); len(facts) > 0 {
		st.guard = and(append([]Sx{st.guard}, facts...)...)
	}
	return r
}

// ---------------------------------------------------------------------------------------------
// indexing, slicing
// ---------------------------------------------------------------------------------------------

func (f *Frame) idxTerm(v ssa.Value) Sx {
	t := f.val(v)
	k, _ := typeIntKind(v.Type())
	return f.tr.c.it.conv(k, I64, t.t)
}

func (f *Frame) boundsCheck(st *State, idx Sx, n Sx, in ssa.Instruction) {
	it := f.tr.c.it
	// constant index into a fixed-size array (compiler-built argument arrays): nothing to prove
	if ia, ok := in.(*ssa.IndexAddr); ok {
		if cv, ok := ia.Index.(*ssa.Const); ok && cv.Value != nil {
			if p, ok := ia.X.Type().Underlying().(*types.Pointer); ok {
				if arr, ok := p.Elem().Underlying().(*types.Array); ok {
					if k := cv.Int64(); k >= 0 && k < arr.Len() {
						return
					}
				}
			}
		}
	}
	f.safetyObl(st, "index", and(it.le(I64, it.iconst(0), idx), it.lt(I64, idx, n)), in)
}

func (f *Frame) indexAddr(st *State, x *ssa.IndexAddr) Val {
	tr := f.tr
	c := tr.c
	it := c.it
	base := f.val(x.X)
	idx := f.idxTerm(x.Index)
	switch u := x.X.Type().Underlying().(type) {
	case *types.Slice:
		f.boundsCheck(st, idx, sx("sl_len", base.t), x)
		key := "E:" + shortType(u.Elem())
		off := c.define("off", it.isort(), it.addNW(sx("sl_off", base.t), idx))
		return Val{addr: &Addr{key: key, idxs: []Sx{sx("sl_arr", base.t), off}, typ: u.Elem(), gl: base.gl}, typ: x.Type()}
	case *types.Pointer: // pointer to array
		arr := u.Elem().Underlying().(*types.Array)
		f.boundsCheck(st, idx, it.iconst(arr.Len()), x)
		if base.addr == nil {
			f.nilCheck(st, base, x)
		}
		if r := arrayObjRef(base); r != "" {
			// a whole array object (new [N]T): its elements live in the slice-element heap so
			// that slices of it alias it
			if _, isStruct := arr.Elem().Underlying().(*types.Struct); !isStruct {
				key := "E:" + shortType(arr.Elem())
				return Val{addr: &Addr{key: key, idxs: []Sx{r, idx}, typ: arr.Elem()}, typ: x.Type()}
			}
		}
		a := tr.addrOf(base, x.X.Type())
		return Val{addr: &Addr{key: a.key + "[]", idxs: append(append([]Sx{}, a.idxs...), idx), typ: arr.Elem(), gl: a.gl}, typ: x.Type()}
	}
	c.unsupp("IndexAddr on %s", x.X.Type())
	return Val{t: c.declConst("ia", "Int"), typ: x.Type()}
}

func (f *Frame) index(st *State, x *ssa.Index) Val {
	tr := f.tr
	c := tr.c
	it := c.it
	base := f.val(x.X)
	idx := f.idxTerm(x.Index)
	switch u := x.X.Type().Underlying().(type) {
	case *types.Basic: // string
		f.boundsCheck(st, idx, sx("slen", base.t), x)
		return Val{t: c.define(x.Name(), c.sortOf(x.Type()), sx("sat", base.t, idx)), typ: x.Type()}
	case *types.Array:
		f.boundsCheck(st, idx, it.iconst(u.Len()), x)
		return Val{t: c.define(x.Name(), c.sortOf(x.Type()), sx("select", base.t, idx)), typ: x.Type()}
	}
	c.unsupp("Index on %s", x.X.Type())
	return Val{t: c.declConst("ix", c.sortOf(x.Type())), typ: x.Type()}
}

func (f *Frame) sliceOp(b *ssa.BasicBlock, st *State, x *ssa.Slice) Val {
	tr := f.tr
	c := tr.c
	it := c.it
	base := f.val(x.X)
	z := it.iconst(0)
	lo := z
	if x.Low != nil {
		lo = f.idxTerm(x.Low)
	}
	switch u := x.X.Type().Underlying().(type) {
	case *types.Basic: // string
		n := sx("slen", base.t)
		hi := n
		if x.High != nil {
			hi = f.idxTerm(x.High)
		}
		f.safetyObl(st, "slice", and(it.le(I64, z, lo), it.le(I64, lo, hi), it.le(I64, hi, n)), x)
		return Val{t: tr.substr(base.t, lo, hi), typ: x.Type()}
	case *types.Slice:
		capT := sx("sl_cap", base.t)
		hi := sx("sl_len", base.t)
		if x.High != nil {
			hi = f.idxTerm(x.High)
		}
		mx := capT
		if x.Max != nil {
			mx = f.idxTerm(x.Max)
			f.safetyObl(st, "slice", and(it.le(I64, z, lo), it.le(I64, lo, hi), it.le(I64, hi, mx), it.le(I64, mx, capT)), x)
		} else {
			f.safetyObl(st, "slice", and(it.le(I64, z, lo), it.le(I64, lo, hi), it.le(I64, hi, capT)), x)
		}
		t := sx("mk_slice", sx("sl_arr", base.t), it.add(I64, sx("sl_off", base.t), lo), it.sub(I64, hi, lo), it.sub(I64, mx, lo))
		return Val{t: c.define(x.Name(), "Slice", t), typ: x.Type()}
	case *types.Pointer: // *[N]T -> []T : the backing array is the array object
		arr := u.Elem().Underlying().(*types.Array)
		n := it.iconst(arr.Len())
		hi := n
		if x.High != nil {
			hi = f.idxTerm(x.High)
		}
		f.safetyObl(st, "slice", and(it.le(I64, z, lo), it.le(I64, lo, hi), it.le(I64, hi, n)), x)
		if r := arrayObjRef(base); r != "" {
			if _, isStruct := arr.Elem().Underlying().(*types.Struct); !isStruct {
				return Val{t: c.define(x.Name(), "Slice", sx("mk_slice", r, lo, it.sub(I64, hi, lo), it.sub(I64, n, lo))), typ: x.Type()}
			}
		}
		c.unsupp("slice of array pointer in %s", f.fn.Name())
		return Val{t: c.declConst("sl", "Slice"), typ: x.Type()}
	}
	c.unsupp("Slice on %s", x.X.Type())
	return Val{t: c.declConst("sl", c.sortOf(x.Type())), typ: x.Type()}
}

func (tr *Translator) substr(s, lo, hi Sx) Sx {
	c := tr.c
	it := c.it
	c.declFun("ssub", []Sx{"Str", it.isort(), it.isort()}, "Str")
	// a declared constant (not a macro) so that it can appear in quantifier patterns even when
	// the bounds are ite-terms; equal operands still give equal strings through ssub
	n := c.declConst("sub", "Str")
	c.axiom(n, eq(n, sx("ssub", s, lo, hi)))
	inb := and(it.le(I64, it.iconst(0), lo), it.le(I64, lo, hi), it.le(I64, hi, sx("slen", s)))
	c.axiom(n, imp(inb, eq(sx("slen", n), it.subNW(hi, lo))))
	c.softAxiom(n, and(
		imp(inb,
			fmt.Sprintf("(forall ((k %s)) (! (=> (and %s %s) (= (select (sbytes %s) k) (select (sbytes %s) %s))) :pattern ((select (sbytes %s) k))))",
				it.isort(), it.le(I64, it.iconst(0), "k"), it.lt(I64, "k", sx("slen", n)), n, s, it.addNW(lo, "k"), n)),
		imp(and(eq(lo, it.iconst(0)), eq(hi, sx("slen", s))), eq(n, s))))
	return n
}

func (f *Frame) makeSlice(b *ssa.BasicBlock, st *State, x *ssa.MakeSlice) Val {
	tr := f.tr
	c := tr.c
	it := c.it
	n := f.idxTerm(x.Len)
	cp := f.idxTerm(x.Cap)
	f.safetyObl(st, "make", and(it.le(I64, it.iconst(0), n), it.le(I64, n, cp), it.le(I64, cp, it.iconst(1<<40))), x)
	r := f.freshRef(b, st, x.Type())
	elem := x.Type().Underlying().(*types.Slice).Elem()
	f.zeroElems(b, st, r.t, elem)
	return Val{t: c.define(x.Name(), "Slice", sx("mk_slice", r.t, it.iconst(0), n, cp)), typ: x.Type()}
}

// zero the fresh backing array r of element type elem
func (f *Frame) zeroElems(b *ssa.BasicBlock, st *State, r Sx, elem types.Type) {
	tr := f.tr
	c := tr.c
	if u, ok := elem.Underlying().(*types.Struct); ok {
		for i := 0; i < u.NumFields(); i++ {
			f.zeroElemsKey(b, st, r, "E:"+shortType(elem)+"."+u.Field(i).Name(), u.Field(i).Type())
		}
		_ = c
		return
	}
	f.zeroElemsKey(b, st, r, "E:"+shortType(elem), elem)
}

func (f *Frame) zeroElemsKey(b *ssa.BasicBlock, st *State, r Sx, key string, elem types.Type) {
	tr := f.tr
	c := tr.c
	if _, ok := elem.Underlying().(*types.Struct); ok {
		c.unsupp("nested struct slice elements")
		return
	}
	leaf := c.sortOf(elem)
	tr.regKey(key, []Sx{"Int", c.it.isort()}, leaf)
	cur := tr.memGet(st, key)
	zarr := sx(fmt.Sprintf("(as const (Array %s %s))", c.it.isort(), leaf), c.zeroOf(elem))
	st.mem[key] = c.define("H_"+key, tr.memSortFull(key), sx("store", cur, r, zarr))
	f.noteWrite(key, b.Index)
}
