package main

import (
	"os"
	"fmt"
	"go/ast"
	"go/types"
	"strings"

	"golang.org/x/tools/go/ssa"
)

func fullName(fn *ssa.Function) string {
	s := fn.String()
	return s
}

func inRepo(fn *ssa.Function) bool {
	if fn.Pkg != nil {
		return strings.HasPrefix(fn.Pkg.Pkg.Path(), modPath)
	}
	if o := fn.Origin(); o != nil && o.Pkg != nil {
		return strings.HasPrefix(o.Pkg.Pkg.Path(), modPath)
	}
	if fn.Parent() != nil {
		return inRepo(fn.Parent())
	}
	return false
}

func (f *Frame) freshResult(st *State, t types.Type, name string) Val {
	tr := f.tr
	c := tr.c
	if tt, ok := t.(*types.Tuple); ok {
		if tt.Len() == 0 {
			return Val{}
		}
		var tup []Val
		for i := 0; i < tt.Len(); i++ {
			tup = append(tup, f.freshResult(st, tt.At(i).Type(), name))
		}
		return Val{tup: tup}
	}
	v := Val{t: c.declConst(name, c.sortOf(t)), typ: t}
	if facts := tr.typeFacts(st, v); len(facts) > 0 {
		st.guard = and(append([]Sx{st.guard}, facts...)...)
	}
	return v
}

func refLike(t types.Type) bool {
	switch u := t.Underlying().(type) {
	case *types.Pointer, *types.Slice, *types.Map, *types.Chan, *types.Signature:
		return true
	case *types.Interface:
		return true
	case *types.Struct:
		for i := 0; i < u.NumFields(); i++ {
			if refLike(u.Field(i).Type()) {
				return true
			}
		}
	case *types.Array:
		return refLike(u.Elem())
	}
	return false
}

func (f *Frame) call(b *ssa.BasicBlock, st *State, x *ssa.Call, cc *ssa.CallCommon) Val {
	tr := f.tr
	c := tr.c
	var rt types.Type = types.NewTuple()
	if x != nil {
		rt = x.Type()
	} else if sig, ok := cc.Value.Type().Underlying().(*types.Signature); ok {
		rt = sig.Results()
	}
	name := "call"
	if x != nil {
		name = x.Name()
	}
	var instr ssa.Instruction
	if x != nil {
		instr = x
	}
	if cc.IsInvoke() {
		recv := f.val(cc.Value)
		_ = recv
		mname := cc.Method.Name()
		{
			cargs := []Val{recv}
			for _, a := range cc.Args {
				cargs = append(cargs, f.val(a))
			}
			f.callsiteChecksNamed(b, st, mname, shortType(cc.Value.Type())+"."+mname, cargs, instr)
		}
		if ict := tr.contracts.ByIface[shortType(cc.Value.Type())+"."+mname]; ict != nil {
			var args []Val
			args = append(args, recv)
			for _, a := range cc.Args {
				args = append(args, f.val(a))
			}
			c.note("interface-level contract assumed of every implementation: " + shortType(cc.Value.Type()) + "." + mname)
			return f.contractCall(b, st, ict, args, rt, name, instr)
		}
		// error.Error() and Stringer on unknown dynamic types: heap-neutral assumption is NOT made
		c.note(fmt.Sprintf("interface method call %s.%s: unknown callee, heap havocked", shortType(cc.Value.Type()), mname))
		f.havocAll(b, st, "invoke")
		return f.freshResult(st, rt, name)
	}
	var args []Val
	for _, a := range cc.Args {
		args = append(args, f.val(a))
	}
	// sort.Slice and friends: permute the elements of the slice argument, nothing else (the
	// comparison callback is assumed to be free of side effects)
	if callee, ok := cc.Value.(*ssa.Function); ok {
		switch fullName(callee) {
		case "sort.Slice", "sort.SliceStable":
			if mi, ok := cc.Args[0].(*ssa.MakeInterface); ok {
				if sl, ok := mi.X.Type().Underlying().(*types.Slice); ok {
					c.note("sort.Slice/SliceStable: permutes the elements of its slice argument only; the less callback is assumed side-effect free (trusted)")
					f.havocElems(b, st, sl.Elem(), f.val(mi.X))
					return Val{}
				}
			}
		}
	}
	switch callee := cc.Value.(type) {
	case *ssa.Builtin:
		return f.builtin(b, st, callee.Name(), cc, args, rt, instr)
	case *ssa.Function:
		return f.staticCall(b, st, callee, args, nil, rt, name, instr)
	}
	cv := f.val(cc.Value)
	if cv.clo != nil {
		return f.staticCall(b, st, cv.fn, args, cv.cloB, rt, name, instr)
	}
	if cv.fn != nil {
		return f.staticCall(b, st, cv.fn, args, nil, rt, name, instr)
	}
	if len(cv.cands) > 0 && cv.t != "" {
		return f.dispatch(b, st, cv, args, rt, name, instr)
	}
	// dynamic call through a function value
	if cv.t != "" && instr != nil {
		f.safetyObl(st, "nilfunc", not(eq(cv.t, "0")), instr)
	}
	c.note("call through a function value: unknown callee, heap havocked")
	f.havocAll(b, st, "dyncall")
	return f.freshResult(st, rt, name)
}

func (f *Frame) staticCall(b *ssa.BasicBlock, st *State, fn *ssa.Function, args []Val, freeVars []Val, rt types.Type, name string, instr ssa.Instruction) Val {
	tr := f.tr
	c := tr.c
	fname := fullName(fn)
	f.callsiteChecks(b, st, fn, fname, args, instr)
	// 1. engine models
	if v, ok := f.modelCall(b, st, fn, fname, args, rt, name, instr); ok {
		return v
	}
	// 2. contract
	if ct := tr.contracts.ByFn[fn]; ct != nil && !ct.Inline {
		return f.contractCall(b, st, ct, args, rt, name, instr)
	}
	// 3. inline
	if inRepo(fn) && len(fn.Blocks) > 0 {
		rec := false
		for _, s := range tr.calleeStack {
			if s == fname {
				rec = true
			}
		}
		if !rec && f.depth < tr.inlineMax && ssaSize(fn) <= 400 {
			return f.inline(b, st, fn, args, freeVars, rt, name)
		}
		c.note(fmt.Sprintf("call of %s not inlined (recursive, too deep or too large) and without contract: result and heap havocked", shortFn(fn)))
		f.havocAll(b, st, "noinline")
		return f.freshResult(st, rt, name)
	}
	// 4. external
	f.extCC = nil
	if ci, ok := instr.(ssa.CallInstruction); ok && ci != nil {
		f.extCC = ci.Common()
	}
	return f.externalCall(b, st, fn, fname, args, rt, name)
}

func shortFn(fn *ssa.Function) string {
	return strings.ReplaceAll(fn.String(), modPath+"/pkg/", "")
}

func ssaSize(fn *ssa.Function) int {
	n := 0
	for _, b := range fn.Blocks {
		for _, in := range b.Instrs {
			if _, ok := in.(*ssa.DebugRef); !ok {
				n++
			}
		}
	}
	return n
}

func (f *Frame) inline(b *ssa.BasicBlock, st *State, fn *ssa.Function, args []Val, freeVars []Val, rt types.Type, name string) Val {
	tr := f.tr
	var outer []string
	outer = append(outer, f.outer...)
	for _, li := range f.loops {
		if li.body[b.Index] {
			outer = append(outer, li.key)
		}
	}
	nf := tr.newFrame(fn, f.depth+1, f.path+fmt.Sprintf("%s@b%d/", f.fn.Name(), b.Index), outer)
	tr.calleeStack = append(tr.calleeStack, fullName(fn))
	out, res := nf.exec(st.clone(), args, freeVars)
	tr.calleeStack = tr.calleeStack[:len(tr.calleeStack)-1]
	if out == nil {
		// callee never returns
		st.guard = "false"
		return f.zeroResult(rt)
	}
	st.guard = out.guard
	st.mem = out.mem
	if len(res) == 0 {
		return Val{}
	}
	if len(res) == 1 {
		return res[0]
	}
	return Val{tup: res}
}

func (f *Frame) zeroResult(rt types.Type) Val {
	c := f.tr.c
	if tt, ok := rt.(*types.Tuple); ok {
		if tt.Len() == 0 {
			return Val{}
		}
		var tup []Val
		for i := 0; i < tt.Len(); i++ {
			tup = append(tup, Val{t: c.zeroOf(tt.At(i).Type()), typ: tt.At(i).Type()})
		}
		return Val{tup: tup}
	}
	return Val{t: c.zeroOf(rt), typ: rt}
}

// contractCall: assert requires, havoc modifies, assume ensures
func (f *Frame) contractCall(b *ssa.BasicBlock, st *State, ct *Contract, args []Val, rt types.Type, name string, instr ssa.Instruction) Val {
	tr := f.tr
	c := tr.c
	for i, a := range args {
		if a.addr != nil {
			if p := plainRef(a.addr); p != "" {
				args[i] = Val{t: p, typ: a.typ}
			} else {
				c.unsupp("interior pointer passed to contracted callee %s", ct.Qual)
			}
		}
	}
	var preNames []string
	if len(ct.Requires) > 0 {
		preNames = ct.Requires[0].Params
	}
	pre := st.clone()
	for i, cl := range ct.Requires {
		env := tr.contractEnv(ct, cl.Params, args, st, st)
		g := tr.specBool(cl, env)
		oname := fmt.Sprintf("%s#call.%s.pre%d", tr.oblPrefix, ct.Qual, i+1)
		if tr.safety {
			c.addObl(&Obligation{Name: oname, Kind: "call.pre", Guard: st.guard, Goal: g, Pos: cl.Text, Func: tr.oblPrefix})
		}
		st.guard = and(st.guard, g)
	}
	_ = preNames
	// havoc
	written := tr.summaryOf(ct)
	mods := map[string]bool{}
	all := !ct.ModSet
	for _, m := range ct.Modifies {
		if m == "*" {
			all = true
		}
		mods[m] = true
	}
	havocked := map[string]bool{}
	if all {
		for k := range c.memSorts {
			havocked[k] = true
		}
		f.havocAll(b, st, "call "+ct.Qual)
	} else {
		for k := range written {
			havocked[k] = true
		}
		oldAlloc := tr.allocTerm(st)
		for _, k := range sortedKeys(written) {
			if _, ok := c.memSorts[k]; !ok {
				continue
			}
			if k == "$alloc" {
				st.mem[k] = c.declConst("alloc_c", "Int")
				st.guard = and(st.guard, sx("<=", oldAlloc, st.mem[k]))
				f.noteWrite(k, b.Index)
				continue
			}
			old := tr.memGet(st, k)
			nw := c.declConst("Hc_"+k, tr.memSortFull(k))
			st.mem[k] = nw
			f.noteWrite(k, b.Index)
			if !mods[k] && len(c.memSorts[k].idx) >= 1 && c.memSorts[k].idx[0] == "Int" {
				// frame: pre-existing objects unchanged
				c.softAxiom(nw, fmt.Sprintf("(forall ((r Int)) (! (=> (< r %s) (= (select %s r) (select %s r))) :pattern ((select %s r))))", oldAlloc, nw, old, nw))
			} else if !mods[k] {
				st.mem[k] = old
			}
		}
	}
	tr.assumeGlobalInvs(st)
	res := f.freshResult(st, rt, name)
	var resVals []Val
	if res.tup != nil {
		resVals = res.tup
	} else if res.t != "" {
		resVals = []Val{res}
	}
	for _, cl := range ct.Ensures {
		if tr.topC != nil && tr.topC.CalleeClassesOnly && cl.Class == "" && len(ct.ClassNames()) > 0 {
			continue
		}
		env := tr.contractEnv(ct, cl.Params, append(append([]Val{}, args...), resVals...), st, pre)
		env.havocked = havocked
		st.guard = and(st.guard, tr.specBool(cl, env))
	}
	st.guard = c.defineBool("g_after_"+ct.FuncName, st.guard)
	// self-distrust: the state after assuming a callee's ensures must still be reachable. An
	// ensures that contradicts what the caller knows (a ghost component that was not havocked, a
	// frame that is too strong) would otherwise prove everything after the call vacuously, and
	// #exit-reach does not see it when another path reaches the exit.
	if tr.safety && len(ct.Ensures) > 0 && tr.topC != nil && !tr.topC.Swept {
		c.addObl(&Obligation{Name: fmt.Sprintf("%s#call.%s.reach", tr.oblPrefix, ct.Qual), Kind: "call.reach", Guard: st.guard, Goal: "true", ExpectSat: true,
			Pos: "state after the call is reachable", Func: tr.oblPrefix})
	}
	if ct.Trusted {
		c.note("trusted contract (body not verified): " + ct.Qual)
	}
	return res
}

var summaryCache = map[string]map[string]bool{}

// summaryOf: heap keys written by the body of a contracted function (computed by a scratch translation)
func (tr *Translator) summaryOf(ct *Contract) map[string]bool {
	key := ct.Qual + "/" + tr.c.it.mode.String()
	if s, ok := summaryCache[key]; ok {
		// make sure keys are registered in this ctx
		for k := range s {
			if ms, ok := summarySorts[key][k]; ok {
				tr.regKey(k, ms.idx, ms.leaf)
			}
		}
		return s
	}
	summaryCache[key] = map[string]bool{} // recursion guard
	summarySorts[key] = map[string]memSort{}
	sc := newCtx(tr.l, tr.c.it.mode)
	st := &Translator{c: sc, l: tr.l, contracts: tr.contracts, top: ct.Fn, topC: ct, loopMods: map[string]map[string]bool{}, inlineMax: tr.inlineMax, initMem: map[string]Sx{}}
	w := map[string]bool{}
	if ct.Fn != nil && len(ct.Fn.Blocks) > 0 && !ct.Trusted {
		var prevSorts map[string]memSort
		for pass := 0; pass < 4; pass++ {
			sc2 := newCtx(tr.l, tr.c.it.mode)
			for k, v := range prevSorts {
				sc2.memSorts[k] = v
			}
			prevSorts = sc2.memSorts
			st.c = sc2
			st.initMem = map[string]Sx{}
			st.modsGrew = false
			w = map[string]bool{}
			st.writeLog = []map[string]bool{w}
			st.runBody(ct, false)
			sc = sc2
			if !st.modsGrew {
				break
			}
		}
	} else {
		for _, m := range ct.Modifies {
			w[m] = true
		}
		w["$alloc"] = true
	}
	// ghost state is written by the contract's own ghost clauses (applied at exit, not by the body)
	// and by those of its callees: every ghost key the contract lists under modifies counts as
	// written, so that call sites havoc it before assuming the ensures
	for _, m := range ct.Modifies {
		if (strings.HasPrefix(m, "X:") || strings.HasPrefix(m, "XS:")) && os.Getenv("MLRVC_SELFTEST_NO_GHOST_HAVOC") == "" {
			w[m] = true
		}
	}
	for _, g := range ct.Ghosts {
		if os.Getenv("MLRVC_SELFTEST_NO_GHOST_HAVOC") != "" {
			break
		}
		if g.All {
			w["X:"+g.Name] = true
		} else if g.Clause != nil && g.Clause.Expr != nil {
			if cl, ok := g.Clause.Expr.(*ast.CompositeLit); ok && len(cl.Elts) == 2 {
				if _, isLit := cl.Elts[1].(*ast.FuncLit); isLit {
					w["XS:"+g.Name] = true
				} else {
					w["X:"+g.Name] = true
				}
			}
		}
	}
	if w["*"] {
		// body havocs everything: all known keys
		for k := range sc.memSorts {
			w[k] = true
		}
		for k := range tr.c.memSorts {
			w[k] = true
		}
	}
	for k := range w {
		if strings.HasPrefix(k, "XS:") {
			sc.memSorts[k] = memSort{idx: []Sx{"Int", tr.c.it.isort()}, leaf: "Int"}
		} else if strings.HasPrefix(k, "X:") {
			if _, ok := sc.memSorts[k]; !ok {
				sc.memSorts[k] = memSort{idx: []Sx{"Int"}, leaf: tr.c.it.isort()}
			}
		}
		if ms, ok := sc.memSorts[k]; ok {
			summarySorts[key][k] = ms
			tr.regKey(k, ms.idx, ms.leaf)
		}
	}
	summaryCache[key] = w
	if os.Getenv("MLRVC_DEBUG_SUMMARY") != "" {
		fmt.Fprintln(os.Stderr, "summary", key, w)
	}
	return w
}

var summarySorts = map[string]map[string]memSort{}

// ---------------------------------------------------------------------------------------------
// builtins
// ---------------------------------------------------------------------------------------------

func (f *Frame) builtin(b *ssa.BasicBlock, st *State, name string, cc *ssa.CallCommon, args []Val, rt types.Type, instr ssa.Instruction) Val {
	tr := f.tr
	c := tr.c
	it := c.it
	switch name {
	case "len":
		at := cc.Args[0].Type()
		switch u := at.Underlying().(type) {
		case *types.Basic:
			return Val{t: sx("slen", args[0].t), typ: rt}
		case *types.Slice:
			return Val{t: sx("sl_len", args[0].t), typ: rt}
		case *types.Array:
			return Val{t: it.iconst(u.Len()), typ: rt}
		case *types.Pointer:
			if arr, ok := u.Elem().Underlying().(*types.Array); ok {
				return Val{t: it.iconst(arr.Len()), typ: rt}
			}
		case *types.Map:
			lk := tr.mapLenKey(u)
			return Val{t: sx("select", tr.memGet(st, lk), args[0].t), typ: rt}
		case *types.Chan:
			return f.freshResult(st, rt, "chanlen")
		}
	case "cap":
		if _, ok := cc.Args[0].Type().Underlying().(*types.Slice); ok {
			return Val{t: sx("sl_cap", args[0].t), typ: rt}
		}
	case "append":
		return f.appendOp(b, st, cc, args, rt, instr)
	case "copy":
		// copy(dst, src): dst elements havocked within range
		c.note("builtin copy: destination elements havocked")
		if sl, ok := cc.Args[0].Type().Underlying().(*types.Slice); ok {
			f.havocElems(b, st, sl.Elem(), args[0])
		}
		return f.freshResult(st, rt, "copy")
	case "delete":
		f.mapDelete(b, st, cc, args)
		return Val{}
	case "panic":
		if instr != nil {
			f.safetyObl(st, "panic", "false", instr)
		}
		st.guard = "false"
		return Val{}
	case "print", "println":
		return Val{}
	case "min", "max":
		if k, ok := typeIntKind(rt); ok && len(args) == 2 {
			lt := it.lt(k, args[0].t, args[1].t)
			if name == "min" {
				return Val{t: ite(lt, args[0].t, args[1].t), typ: rt}
			}
			return Val{t: ite(lt, args[1].t, args[0].t), typ: rt}
		}
	case "clear":
		if m, ok := cc.Args[0].Type().Underlying().(*types.Map); ok {
			dom, _ := tr.mapKeys(m)
			lk := tr.mapLenKey(m)
			ms := c.memSorts[dom]
			empty := sx(fmt.Sprintf("(as const (Array %s Bool))", ms.idx[1]), "false")
			st.mem[dom] = c.define("H_"+dom, tr.memSortFull(dom), sx("store", tr.memGet(st, dom), args[0].t, empty))
			st.mem[lk] = c.define("H_"+lk, tr.memSortFull(lk), sx("store", tr.memGet(st, lk), args[0].t, it.iconst(0)))
			f.noteWrite(dom, b.Index)
			f.noteWrite(lk, b.Index)
			return Val{}
		}
		if sl, ok := cc.Args[0].Type().Underlying().(*types.Slice); ok {
			f.havocElems(b, st, sl.Elem(), args[0])
			c.note("builtin clear on a slice: elements havocked")
			return Val{}
		}
	case "close":
		c.note("channel operations abstracted (values received are havoc, no interleaving semantics)")
		return Val{}
	case "recover":
		c.unsupp("recover in %s", f.fn.Name())
		return f.freshResult(st, rt, "recover")
	}
	c.unsupp("builtin %s", name)
	return f.freshResult(st, rt, name)
}

func (f *Frame) havocElems(b *ssa.BasicBlock, st *State, elem types.Type, sl Val) {
	tr := f.tr
	c := tr.c
	var keys []string
	if u, ok := elem.Underlying().(*types.Struct); ok {
		for i := 0; i < u.NumFields(); i++ {
			keys = append(keys, "E:"+shortType(elem)+"."+u.Field(i).Name())
		}
	} else {
		keys = append(keys, "E:"+shortType(elem))
		tr.regKey(keys[0], []Sx{"Int", c.it.isort()}, c.sortOf(elem))
	}
	for _, k := range keys {
		if _, ok := c.memSorts[k]; !ok {
			continue
		}
		cur := tr.memGet(st, k)
		ms := c.memSorts[k]
		inner := sx("Array", ms.idx[1], ms.leaf)
		fresh := c.declConst("Hcp_"+k, inner)
		st.mem[k] = c.define("H_"+k, tr.memSortFull(k), sx("store", cur, sx("sl_arr", sl.t), fresh))
		f.noteWrite(k, b.Index)
	}
}

// append(s, elems...) : exact model of Go's append w.r.t. aliasing: in place when capacity
// suffices, otherwise a fresh backing array holding a copy.
func (f *Frame) appendOp(b *ssa.BasicBlock, st *State, cc *ssa.CallCommon, args []Val, rt types.Type, instr ssa.Instruction) Val {
	tr := f.tr
	c := tr.c
	it := c.it
	s := args[0]
	more := args[1]
	slt, ok := cc.Args[0].Type().Underlying().(*types.Slice)
	if !ok {
		c.unsupp("append on %s", cc.Args[0].Type())
		return f.freshResult(st, rt, "append")
	}
	elem := slt.Elem()
	if isStringType(cc.Args[1].Type()) {
		// append([]byte, string...)
		c.note("append([]byte, string...): result elements beyond the old length are havocked")
		n := sx("slen", more.t)
		return f.appendN(b, st, s, elem, n, nil)
	}
	// SSA passes the variadic part as a slice; the common case is a single-element slice literal
	// created just before: new [1]T; store; slice. We read the appended elements through the heap.
	n := sx("sl_len", more.t)
	return f.appendN(b, st, s, elem, n, &more)
	_ = it
	return Val{}
}

func (f *Frame) appendN(b *ssa.BasicBlock, st *State, s Val, elem types.Type, n Sx, more *Val) Val {
	tr := f.tr
	c := tr.c
	it := c.it
	if _, isStruct := elem.Underlying().(*types.Struct); isStruct {
		c.unsupp("append to slice of structs")
		return f.freshResult(st, types.NewSlice(elem), "append")
	}
	key := "E:" + shortType(elem)
	leaf := c.sortOf(elem)
	tr.regKey(key, []Sx{"Int", it.isort()}, leaf)
	oldLen := c.define("alen", it.isort(), sx("sl_len", s.t))
	newLen := c.define("nlen", it.isort(), it.add(I64, oldLen, n))
	fits := c.defineBool("afits", it.le(I64, newLen, sx("sl_cap", s.t)))
	// fresh backing array (used only when it does not fit)
	al := tr.allocTerm(st)
	nref := c.define("aref", "Int", al)
	st.mem["$alloc"] = c.define("alloc", "Int", sx("+", al, "1"))
	f.noteWrite("$alloc", b.Index)
	st.guard = and(st.guard, sx("<", "0", nref))
	newCap := c.declConst("ncap", it.isort())
	st.guard = and(st.guard, it.le(I64, newLen, newCap), it.le(I64, newCap, it.iconst(1<<40)))
	arrT := c.define("rarr", "Int", ite(fits, sx("sl_arr", s.t), nref))
	offT := c.define("roff", it.isort(), ite(fits, sx("sl_off", s.t), it.iconst(0)))
	capT := c.define("rcap", it.isort(), ite(fits, sx("sl_cap", s.t), newCap))
	cur := tr.memGet(st, key)
	inner := sx("Array", it.isort(), leaf)
	// target array contents: A' such that A'[roff+i] = old[s.off+i] for i<oldLen ; = more[i-oldLen] for oldLen<=i<newLen ;
	// and (when in place) all other cells unchanged.
	na := c.declConst("Aapp", inner)
	oldArr := sx("select", cur, sx("sl_arr", s.t))
	var moreCell func(i Sx) Sx
	if more != nil {
		mArr := sx("select", cur, sx("sl_arr", more.t))
		moreCell = func(i Sx) Sx { return sx("select", mArr, it.add(I64, sx("sl_off", more.t), i)) }
	}
	k := "k"
	var facts []Sx
	facts = append(facts, fmt.Sprintf("(forall ((k %s)) (! (=> (and %s %s) (= (select %s %s) (select %s %s))) :pattern ((select %s %s))))",
		it.isort(), it.le(I64, it.iconst(0), k), it.lt(I64, k, oldLen), na, it.add(I64, offT, k), oldArr, it.add(I64, sx("sl_off", s.t), k), na, it.add(I64, offT, k)))
	if moreCell != nil {
		facts = append(facts, fmt.Sprintf("(forall ((k %s)) (! (=> (and %s %s) (= (select %s %s) %s)) :pattern ((select %s %s))))",
			it.isort(), it.le(I64, it.iconst(0), k), it.lt(I64, k, n), na, it.add(I64, it.add(I64, offT, oldLen), k), moreCell(k), na, it.add(I64, it.add(I64, offT, oldLen), k)))
		// common single-element case, quantifier-free
		facts = append(facts, imp(eq(n, it.iconst(1)), eq(sx("select", na, it.add(I64, offT, oldLen)), moreCell(it.iconst(0)))))
	}
	// in place: cells outside [off+oldLen, off+newLen) unchanged
	facts = append(facts, imp(fits, fmt.Sprintf("(forall ((k %s)) (! (=> (or %s %s) (= (select %s k) (select %s k))) :pattern ((select %s k))))",
		it.isort(), it.lt(I64, k, it.add(I64, offT, oldLen)), it.le(I64, it.add(I64, offT, newLen), k), na, oldArr, na)))
	c.softAxiom(na, and(facts...))
	st.mem[key] = c.define("H_"+key, tr.memSortFull(key), sx("store", cur, arrT, na))
	f.noteWrite(key, b.Index)
	res := c.define("app", "Slice", sx("mk_slice", arrT, offT, newLen, capT))
	return Val{t: res, typ: types.NewSlice(elem)}
}

// ---------------------------------------------------------------------------------------------
// maps
// ---------------------------------------------------------------------------------------------

func (tr *Translator) mapKeys(m *types.Map) (dom, val string) {
	c := tr.c
	base := shortType(m)
	dom, val = "MD:"+base, "MV:"+base
	ks := c.sortOf(m.Key())
	c.memSorts[dom] = memSort{idx: []Sx{"Int", ks}, leaf: "Bool"}
	c.memSorts[val] = memSort{idx: []Sx{"Int", ks}, leaf: c.sortOf(m.Elem())}
	return
}

func (tr *Translator) mapLenKey(m *types.Map) string {
	k := "ML:" + shortType(m)
	tr.c.memSorts[k] = memSort{idx: []Sx{"Int"}, leaf: tr.c.it.isort()}
	return k
}

func (f *Frame) makeMap(b *ssa.BasicBlock, st *State, x *ssa.MakeMap) Val {
	tr := f.tr
	c := tr.c
	m := x.Type().Underlying().(*types.Map)
	r := f.freshRef(b, st, x.Type())
	dom, _ := tr.mapKeys(m)
	lk := tr.mapLenKey(m)
	ms := c.memSorts[dom]
	empty := sx(fmt.Sprintf("(as const (Array %s Bool))", ms.idx[1]), "false")
	st.mem[dom] = c.define("H_"+dom, tr.memSortFull(dom), sx("store", tr.memGet(st, dom), r.t, empty))
	st.mem[lk] = c.define("H_"+lk, tr.memSortFull(lk), sx("store", tr.memGet(st, lk), r.t, c.it.iconst(0)))
	f.noteWrite(dom, b.Index)
	f.noteWrite(lk, b.Index)
	return r
}

func (f *Frame) mapUpdate(b *ssa.BasicBlock, st *State, x *ssa.MapUpdate) {
	tr := f.tr
	c := tr.c
	m := x.Map.Type().Underlying().(*types.Map)
	mv, k, v := f.val(x.Map), f.val(x.Key), f.val(x.Value)
	f.safetyObl(st, "nilmap", not(eq(mv.t, "0")), x)
	dom, val := tr.mapKeys(m)
	lk := tr.mapLenKey(m)
	d0 := tr.memGet(st, dom)
	had := sx("select", sx("select", d0, mv.t), k.t)
	l0 := tr.memGet(st, lk)
	st.mem[lk] = c.define("H_"+lk, tr.memSortFull(lk), sx("store", l0, mv.t, ite(had, sx("select", l0, mv.t), c.it.add(I64, sx("select", l0, mv.t), c.it.iconst(1)))))
	st.mem[dom] = c.define("H_"+dom, tr.memSortFull(dom), sx("store", d0, mv.t, sx("store", sx("select", d0, mv.t), k.t, "true")))
	v0 := tr.memGet(st, val)
	st.mem[val] = c.define("H_"+val, tr.memSortFull(val), sx("store", v0, mv.t, sx("store", sx("select", v0, mv.t), k.t, v.t)))
	f.noteWrite(dom, b.Index)
	f.noteWrite(val, b.Index)
	f.noteWrite(lk, b.Index)
}

func (f *Frame) mapDelete(b *ssa.BasicBlock, st *State, cc *ssa.CallCommon, args []Val) {
	tr := f.tr
	c := tr.c
	m := cc.Args[0].Type().Underlying().(*types.Map)
	mv, k := args[0], args[1]
	dom, _ := tr.mapKeys(m)
	lk := tr.mapLenKey(m)
	d0 := tr.memGet(st, dom)
	had := sx("select", sx("select", d0, mv.t), k.t)
	l0 := tr.memGet(st, lk)
	st.mem[lk] = c.define("H_"+lk, tr.memSortFull(lk), sx("store", l0, mv.t, ite(had, c.it.sub(I64, sx("select", l0, mv.t), c.it.iconst(1)), sx("select", l0, mv.t))))
	st.mem[dom] = c.define("H_"+dom, tr.memSortFull(dom), sx("store", d0, mv.t, sx("store", sx("select", d0, mv.t), k.t, "false")))
	f.noteWrite(dom, b.Index)
	f.noteWrite(lk, b.Index)
}

func (f *Frame) lookup(st *State, x *ssa.Lookup) Val {
	tr := f.tr
	c := tr.c
	if isStringType(x.X.Type()) {
		// string index
		base := f.val(x.X)
		idx := f.idxTerm(x.Index)
		f.boundsCheck(st, idx, sx("slen", base.t), x)
		return Val{t: c.define(x.Name(), c.sortOf(x.Type()), sx("sat", base.t, idx)), typ: x.Type()}
	}
	m := x.X.Type().Underlying().(*types.Map)
	mv, k := f.val(x.X), f.val(x.Index)
	dom, val := tr.mapKeys(m)
	has := c.defineBool("has", sx("select", sx("select", tr.memGet(st, dom), mv.t), k.t))
	v := Val{t: c.define(x.Name(), c.sortOf(m.Elem()), ite(has, sx("select", sx("select", tr.memGet(st, val), mv.t), k.t), c.zeroOf(m.Elem()))), typ: m.Elem()}
	if facts := tr.typeFacts(st, v); len(facts) > 0 {
		st.guard = and(append([]Sx{st.guard}, facts...)...)
	}
	if x.CommaOk {
		return Val{tup: []Val{v, {t: has, typ: types.Typ[types.Bool]}}}
	}
	return v
}

// ---------------------------------------------------------------------------------------------
// range over strings and maps
// ---------------------------------------------------------------------------------------------

func (f *Frame) rangeStart(b *ssa.BasicBlock, st *State, x *ssa.Range) Val {
	tr := f.tr
	c := tr.c
	v := f.val(x.X)
	posK := "R:" + f.path + f.fn.Name() + "." + x.Name()
	c.memSorts[posK] = memSort{leaf: c.it.isort()}
	st.mem[posK] = c.it.iconst(0)
	f.noteWrite(posK, b.Index)
	return Val{rng: &rangeIter{x: v, typ: x.X.Type(), posK: posK}}
}

func (f *Frame) rangeNext(b *ssa.BasicBlock, st *State, x *ssa.Next) Val {
	tr := f.tr
	c := tr.c
	it := c.it
	iter := f.val(x.Iter)
	if iter.rng == nil {
		c.unsupp("next on unknown iterator")
		return f.freshResult(st, x.Type(), "next")
	}
	tt := x.Type().(*types.Tuple)
	if x.IsString {
		s := iter.rng.x.t
		pos := tr.memGet(st, iter.rng.posK)
		ok := c.defineBool("rng_ok", it.lt(I64, pos, sx("slen", s)))
		// utf8 decoding: width in 1..4; ASCII byte -> (byte,1); otherwise rune is unspecified
		// except that it is >= 0x80 (and 0xFFFD with width 1 for invalid sequences: not distinguished here).
		c.declFun("utf8_width", []Sx{"Str", it.isort()}, it.isort())
		c.declFun("utf8_rune", []Sx{"Str", it.isort()}, c.it.sort(intKind{32, true}))
		b0 := sx("sat", s, pos)
		B8 := intKind{8, false}
		R := intKind{32, true}
		ascii := it.lt(B8, b0, it.konst(B8, bigInt(0x80)))
		w := c.define("rng_w", it.isort(), ite(ascii, it.iconst(1), sx("utf8_width", s, pos)))
		r := c.define("rng_r", it.sort(R), ite(ascii, it.conv(B8, R, b0), sx("utf8_rune", s, pos)))
		st.guard = and(st.guard, imp(ok, and(it.le(I64, it.iconst(1), w), it.le(I64, w, it.iconst(4)),
			it.le(I64, it.add(I64, pos, w), sx("slen", s)),
			imp(not(ascii), and(it.le(R, it.konst(R, bigInt(0x80)), r), it.le(R, r, it.konst(R, bigInt(0x10FFFF))))))))
		c.note("range over string: UTF-8 decoding axiomatised (ASCII exact; width 1..4 within the string; non-ASCII rune value in [0x80,0x10FFFF])")
		key := Val{t: pos, typ: tt.At(1).Type()}
		st.mem[iter.rng.posK] = c.define("rng_pos", it.isort(), ite(ok, it.add(I64, pos, w), pos))
		f.noteWrite(iter.rng.posK, b.Index)
		return Val{tup: []Val{{t: ok, typ: types.Typ[types.Bool]}, key, {t: r, typ: tt.At(2).Type()}}}
	}
	// map iteration: unknown order; key is some key of the map (if ok)
	c.note("range over map: iteration order and termination abstracted (each step yields an arbitrary present key)")
	m, isMap := iter.rng.typ.Underlying().(*types.Map)
	ok := c.declConst("rng_ok", "Bool")
	if !isMap {
		c.unsupp("range over %s", iter.rng.typ)
		return f.freshResult(st, x.Type(), "next")
	}
	dom, val := tr.mapKeys(m)
	k := f.freshResult(st, m.Key(), "rng_k")
	st.guard = and(st.guard, imp(ok, sx("select", sx("select", tr.memGet(st, dom), iter.rng.x.t), k.t)))
	v := Val{t: c.define("rng_v", c.sortOf(m.Elem()), sx("select", sx("select", tr.memGet(st, val), iter.rng.x.t), k.t)), typ: m.Elem()}
	if facts := tr.typeFacts(st, v); len(facts) > 0 {
		st.guard = and(append([]Sx{st.guard}, facts...)...)
	}
	return Val{tup: []Val{{t: ok, typ: types.Typ[types.Bool]}, k, v}}
}

// dispatch: call through a function value known (by a static scan of all stores into the
// package-level variable it was loaded from) to be one of a finite set of functions.
func (f *Frame) dispatch(b *ssa.BasicBlock, st *State, cv Val, args []Val, rt types.Type, name string, instr ssa.Instruction) Val {
	tr := f.tr
	c := tr.c
	c.note(fmt.Sprintf("function values loaded from %s range over the functions stored into it anywhere in the program (static scan); calls through them are dispatched over that set", shortGlobal(cv.gl)))
	var alts []Sx
	for _, cand := range cv.cands {
		alts = append(alts, eq(cv.t, c.funcID(cand)))
	}
	st.guard = c.defineBool("g_disp", and(st.guard, or(alts...)))
	var sts []*State
	var results [][]Val
	for _, cand := range cv.cands {
		cst := st.clone()
		cst.guard = c.defineBool("g_disp_"+cand.Name(), and(st.guard, eq(cv.t, c.funcID(cand))))
		cargs := append([]Val{}, args...)
		r := f.staticCall(b, cst, cand, cargs, nil, rt, name, instr)
		if cst.guard == "false" {
			continue
		}
		sts = append(sts, cst)
		if r.tup != nil {
			results = append(results, r.tup)
		} else if r.t != "" || r.addr != nil {
			results = append(results, []Val{r})
		} else {
			results = append(results, nil)
		}
	}
	if len(sts) == 0 {
		st.guard = "false"
		return f.zeroResult(rt)
	}
	m := tr.mergeStates(sts, "disp")
	st.guard, st.mem = m.guard, m.mem
	n := len(results[0])
	if n == 0 {
		return Val{}
	}
	out := make([]Val, n)
	for i := 0; i < n; i++ {
		var vs []Val
		for _, r := range results {
			vs = append(vs, r[i])
		}
		out[i] = tr.mergeVals(sts, vs, name)
	}
	if n == 1 {
		return out[0]
	}
	return Val{tup: out}
}

// callsiteChecks: //@ callsite assertions of the function under contract at this call
func (f *Frame) callsiteChecks(b *ssa.BasicBlock, st *State, fn *ssa.Function, fname string, args []Val, instr ssa.Instruction) {
	f.callsiteChecksNamed(b, st, fn.Name(), fname, args, instr)
}

// callsiteChecksNamed: clauses "//@ callsite <callee> : <expr>" of the function under proof are
// asserted before every call whose callee has that name (static calls and interface method calls;
// for the latter callArg(0) is the receiver)
func (f *Frame) callsiteChecksNamed(b *ssa.BasicBlock, st *State, fnName string, fname string, args []Val, instr ssa.Instruction) {
	tr := f.tr
	c := tr.c
	if f.depth != 0 || f.contract == nil || instr == nil || len(f.contract.Callsites) == 0 {
		return
	}
	for _, cs := range f.contract.Callsites {
		if !(cs.Callee == fnName || strings.HasSuffix(fname, "."+cs.Callee) || fname == cs.Callee || strings.HasSuffix(fname, ")."+cs.Callee)) {
			continue
		}
		pkg := tr.l.ByPath[f.fn.Pkg.Pkg.Path()]
		if pkg == nil {
			continue
		}
		e, err := parseSugared(cs.Text)
		if err != nil {
			c.unsupp("%s:%d: %v", cs.File, cs.Line, err)
			continue
		}
		info := &types.Info{Types: map[ast.Expr]types.TypeAndValue{}, Uses: map[*ast.Ident]types.Object{}, Defs: map[*ast.Ident]types.Object{},
			Selections: map[*ast.SelectorExpr]*types.Selection{}, Instances: map[*ast.Ident]types.Instance{}}
		if err := types.CheckExpr(tr.l.Prog.Fset, pkg.Types, instr.Pos(), e, info); err != nil {
			c.unsupp("%s:%d: callsite clause does not type-check: %v", cs.File, cs.Line, err)
			continue
		}
		env := f.nameEnv(b, instr, st)
		env.info = info
		env.callArgs = args
		g := env.expr(e).t
		if tr.safety {
			o := c.addObl(&Obligation{Name: fmt.Sprintf("%s#callsite.%s", tr.oblPrefix, cs.Callee), Kind: "call.pre", Guard: st.guard, Goal: g, Pos: cs.Text, Func: tr.oblPrefix})
			// the site itself must be reachable in the VC: a path the encoding cannot take (an
			// unmodelled type switch, a contradictory callee contract) would make the clause vacuous
			c.addObl(&Obligation{Name: o.Name + ".cover", Kind: "cover", Guard: st.guard, Goal: "true", ExpectSat: true, Pos: "call site reachable: " + cs.Text, Func: tr.oblPrefix})
		}
		st.guard = c.defineBool("g_callsite", and(st.guard, g))
	}
}
