package main

import (
	"sync"
	"fmt"
	"go/types"
	"regexp"
	"strings"

	"golang.org/x/tools/go/ssa"
)

// ---------------------------------------------------------------------------------------------
// Ctx: one verification context = one function under contract (or one lemma). It accumulates
// declarations/definitions and named obligations; each obligation is later written to its own
// SMT-LIB file containing only the cone of influence of its guard and goal.
// ---------------------------------------------------------------------------------------------

type Decl struct {
	name  string
	text  string // full SMT command
	owner string // for asserts: included iff owner symbol is needed ("" = always)
	deps  []string
	soft  bool // definitional axiom of a fresh symbol (always satisfiable): omitted from vacuity (must-be-SAT) queries
}

type Obligation struct {
	Name     string
	Kind     string // post, pre-sat, exit-reach, inv.init, inv.keep, dec, safe.*, call.pre, table, lemma
	Guard    Sx
	Goal     Sx
	ExpectSat bool // vacuity checks: the query (guard ∧ goal) must be SAT
	Pos      string
	Func     string
	// filled by solver
	Result   string // proved | refuted | unknown | sat-ok | vacuous
	Solver   string
	TimeS    float64
	Model    map[string]string
	RawOut   string
	File     string
	Obs      []obsTerm
	noSplit  bool
	// Cases: the same obligation stated separately for each return site of the function
	// (guard and goal in that site's own state); proving every case proves the obligation,
	// and each case has its own, much smaller, cone of influence.
	Cases []oblCase
}

type oblCase struct {
	Guard, Goal Sx
}

type Ctx struct {
	l        *Loaded
	it       IntT
	decls    []*Decl
	declIdx  map[string]*Decl
	fresh    int
	obls     []*Obligation
	oblNames map[string]int

	ifaceCons  []types.Type // registered concrete types carried in interfaces
	ifaceIdx   map[string]int
	structs    []string // struct datatype declarations in dependency order
	structIdx  map[string]string
	memSorts   map[string]memSort
	strLits    map[string]string
	funcIDs    map[string]int
	ufs        map[string]bool
	notes      map[string]bool // assumptions / abstractions used (trusted base)
	unsupported []string       // reasons the function is (partly) outside the subset
	depMu      sync.Mutex
	depsDone   int
	specFuncs  map[string]bool // spec functions already emitted
	pendingSpec []func()
}

type memSort struct {
	idx  []Sx // index sorts
	leaf Sx
}

func newCtx(l *Loaded, mode Mode) *Ctx {
	return &Ctx{l: l, it: IntT{mode}, declIdx: map[string]*Decl{}, oblNames: map[string]int{},
		ifaceIdx: map[string]int{}, structIdx: map[string]string{}, memSorts: map[string]memSort{},
		strLits: map[string]string{}, funcIDs: map[string]int{}, ufs: map[string]bool{}, notes: map[string]bool{},
		specFuncs: map[string]bool{}}
}

func (c *Ctx) note(s string) { c.notes[s] = true }

func (c *Ctx) unsupp(format string, a ...interface{}) {
	s := fmt.Sprintf(format, a...)
	for _, u := range c.unsupported {
		if u == s {
			return
		}
	}
	c.unsupported = append(c.unsupported, s)
}

func (c *Ctx) freshName(prefix string) string {
	c.fresh++
	return fmt.Sprintf("%s!%d", prefix, c.fresh)
}

func (c *Ctx) addDecl(name, text, owner string) {
	d := &Decl{name: name, text: text, owner: owner}
	c.decls = append(c.decls, d)
	if name != "" {
		c.declIdx[name] = d
	}
}

// declare a fresh constant
func (c *Ctx) declConst(prefix string, sort Sx) Sx {
	n := c.freshName(sym(prefix))
	c.addDecl(n, fmt.Sprintf("(declare-const %s %s)", n, sort), "")
	return n
}

// define a named term (returns the name). Small atoms are returned unchanged.
func (c *Ctx) define(prefix string, sort Sx, term Sx) Sx {
	if !strings.ContainsAny(term, " (") {
		return term
	}
	n := c.freshName(sym(prefix))
	c.addDecl(n, fmt.Sprintf("(define-fun %s () %s %s)", n, sort, term), "")
	return n
}

func (c *Ctx) defineBool(prefix string, term Sx) Sx { return c.define(prefix, "Bool", term) }

// axiom attached to an owner symbol
func (c *Ctx) axiom(owner string, term Sx) {
	c.addDecl("", fmt.Sprintf("(assert %s)", term), owner)
}

// softAxiom: a quantified definitional axiom about a fresh symbol (frame of a call, contents of a
// concatenation ...). Such axioms are satisfiable by construction; they are left out of the
// must-be-SAT vacuity queries, where quantifiers would only make the solvers answer "unknown".
func (c *Ctx) softAxiom(owner string, term Sx) {
	c.addDecl("", fmt.Sprintf("(assert %s)", term), owner)
	c.decls[len(c.decls)-1].soft = true
}

func (c *Ctx) declFun(name string, argSorts []Sx, res Sx) {
	if c.ufs[name] {
		return
	}
	c.ufs[name] = true
	c.addDecl(name, fmt.Sprintf("(declare-fun %s (%s) %s)", name, strings.Join(argSorts, " "), res), "")
}

func (c *Ctx) addObl(o *Obligation) *Obligation {
	// stable occurrence numbering among identical names
	c.oblNames[o.Name]++
	if n := c.oblNames[o.Name]; n > 1 || strings.Contains(o.Kind, "safe") || o.Kind == "call.pre" {
		o.Name = fmt.Sprintf("%s#%d", o.Name, c.oblNames[o.Name])
	}
	c.obls = append(c.obls, o)
	return o
}

// ---------------------------------------------------------------------------------------------
// Sorts
// ---------------------------------------------------------------------------------------------

func shortType(t types.Type) string {
	s := types.TypeString(t, func(p *types.Package) string {
		return strings.TrimPrefix(strings.TrimPrefix(p.Path(), modPath+"/pkg/"), modPath+"/")
	})
	// byte and rune are aliases: one heap key per underlying type
	s = byteRe.ReplaceAllString(s, "uint8")
	s = runeRe.ReplaceAllString(s, "int32")
	return s
}

func (c *Ctx) sortOf(t types.Type) Sx {
	switch u := t.Underlying().(type) {
	case *types.Basic:
		if k, ok := basicIntKind(u); ok {
			return c.it.sort(k)
		}
		switch u.Kind() {
		case types.Bool, types.UntypedBool:
			return "Bool"
		case types.Float64, types.UntypedFloat:
			return F64
		case types.Float32:
			return F32
		case types.String, types.UntypedString:
			return "Str"
		case types.UnsafePointer:
			return "Int"
		case types.UntypedNil:
			return "Int"
		}
	case *types.Pointer, *types.Map, *types.Chan, *types.Signature:
		return "Int"
	case *types.Interface:
		return "Iface"
	case *types.Slice:
		return "Slice"
	case *types.Array:
		return sx("Array", c.it.isort(), c.sortOf(u.Elem()))
	case *types.Struct:
		return c.structSort(t, u)
	case *types.Tuple:
		return "Tuple!"
	}
	c.unsupp("sort of type %s", t.String())
	return "Int"
}

func (c *Ctx) structSort(t types.Type, u *types.Struct) Sx {
	key := shortType(t)
	if n, ok := c.structIdx[key]; ok {
		return n
	}
	name := "S_" + sym(key)
	if _, isNamed := t.(*types.Named); !isNamed {
		name = fmt.Sprintf("S_anon%d", len(c.structIdx))
	}
	c.structIdx[key] = name
	var fs []string
	for i := 0; i < u.NumFields(); i++ {
		f := u.Field(i)
		fs = append(fs, fmt.Sprintf("(%s.%s %s)", name, sym(f.Name()), c.sortOf(f.Type())))
	}
	if len(fs) == 0 {
		fs = append(fs, fmt.Sprintf("(%s.__empty Bool)", name))
	}
	c.structs = append(c.structs, fmt.Sprintf("(declare-datatypes ((%s 0)) (((mk_%s %s))))", name, name, strings.Join(fs, " ")))
	return name
}

// interface payload constructor for concrete type t
func (c *Ctx) ifaceCon(t types.Type) (con, sel string) {
	key := shortType(t)
	i, ok := c.ifaceIdx[key]
	if !ok {
		// make sure the payload sort exists before registering
		c.sortOf(t)
		i = len(c.ifaceCons)
		c.ifaceIdx[key] = i
		c.ifaceCons = append(c.ifaceCons, t)
	}
	return fmt.Sprintf("ifc_%d", i), fmt.Sprintf("ifv_%d", i)
}

func (c *Ctx) zeroOf(t types.Type) Sx {
	switch u := t.Underlying().(type) {
	case *types.Basic:
		if k, ok := basicIntKind(u); ok {
			return c.it.konst(k, bigInt(0))
		}
		switch u.Kind() {
		case types.Bool, types.UntypedBool:
			return "false"
		case types.Float64, types.UntypedFloat:
			return "(_ +zero 11 53)"
		case types.Float32:
			return "(_ +zero 8 24)"
		case types.String, types.UntypedString:
			return c.strLit("")
		}
		return "0"
	case *types.Pointer, *types.Map, *types.Chan, *types.Signature:
		return "0"
	case *types.Interface:
		return "ifc_nil"
	case *types.Slice:
		return sx("mk_slice", "0", c.it.iconst(0), c.it.iconst(0), c.it.iconst(0))
	case *types.Array:
		return sx(fmt.Sprintf("(as const %s)", c.sortOf(t)), c.zeroOf(u.Elem()))
	case *types.Struct:
		s := c.structSort(t, u)
		if u.NumFields() == 0 {
			return sx("mk_"+s, "false")
		}
		var fs []Sx
		for i := 0; i < u.NumFields(); i++ {
			fs = append(fs, c.zeroOf(u.Field(i).Type()))
		}
		return sx("mk_"+s, fs...)
	}
	return "0"
}

// string literal: a distinct constant with known length and bytes
func (c *Ctx) strLit(s string) Sx {
	if n, ok := c.strLits[s]; ok {
		return n
	}
	n := fmt.Sprintf("lit!%d", len(c.strLits))
	c.strLits[s] = n
	c.addDecl(n, fmt.Sprintf("(declare-const %s Str)", n), "")
	var facts []Sx
	facts = append(facts, eq(sx("slen", n), c.it.iconst(int64(len(s)))))
	if len(s) <= 64 {
		for i := 0; i < len(s); i++ {
			facts = append(facts, eq(sx("sat", n, c.it.iconst(int64(i))), c.it.konst(intKind{8, false}, bigInt(int64(s[i])))))
		}
	}
	c.axiom(n, and(facts...))
	return n
}

func (c *Ctx) funcID(f *ssa.Function) Sx {
	key := f.String()
	id, ok := c.funcIDs[key]
	if !ok {
		id = 1000 + len(c.funcIDs)
		c.funcIDs[key] = id
	}
	return fmt.Sprint(id)
}

// ---------------------------------------------------------------------------------------------
// Emission of one obligation as an SMT-LIB file (cone of influence only)
// ---------------------------------------------------------------------------------------------

var byteRe = regexp.MustCompile(`\bbyte\b`)
var runeRe = regexp.MustCompile(`\brune\b`)
var tokRe = regexp.MustCompile(`[^\s()]+`)

func (c *Ctx) computeDeps() {
	c.depMu.Lock()
	defer c.depMu.Unlock()
	if c.depsDone == len(c.decls) {
		return
	}
	defer func() { c.depsDone = len(c.decls) }()
	for _, d := range c.decls {
		if d.deps != nil {
			continue
		}
		seen := map[string]bool{}
		d.deps = []string{}
		for _, tok := range tokRe.FindAllString(d.text, -1) {
			if tok == d.name || seen[tok] {
				continue
			}
			if _, ok := c.declIdx[tok]; ok {
				seen[tok] = true
				d.deps = append(d.deps, tok)
			}
		}
	}
}

// FP operations that are expensive to bit-blast go through these symbols: exact definitions, or
// (first attempt, sound for proofs because it over-approximates) uninterpreted functions.
const fpExact = `(define-fun fmulX ((a (_ FloatingPoint 11 53)) (b (_ FloatingPoint 11 53))) (_ FloatingPoint 11 53) (fp.mul RNE a b))
(define-fun fdivX ((a (_ FloatingPoint 11 53)) (b (_ FloatingPoint 11 53))) (_ FloatingPoint 11 53) (fp.div RNE a b))
`
const fpAbstract = `(declare-fun fmulX ((_ FloatingPoint 11 53) (_ FloatingPoint 11 53)) (_ FloatingPoint 11 53))
(declare-fun fdivX ((_ FloatingPoint 11 53) (_ FloatingPoint 11 53)) (_ FloatingPoint 11 53))
`
const fpExactBV = `(define-fun f2sX ((a (_ FloatingPoint 11 53))) (_ BitVec 64) ((_ fp.to_sbv 64) RTZ a))
(define-fun s2fX ((a (_ BitVec 64))) (_ FloatingPoint 11 53) ((_ to_fp 11 53) RNE a))
`
const fpAbstractBV = `(declare-fun f2sX ((_ FloatingPoint 11 53)) (_ BitVec 64))
(declare-fun s2fX ((_ BitVec 64)) (_ FloatingPoint 11 53))
`

func (c *Ctx) header() string { return c.headerFP(0) }

// headerFP: level 0 exact; 1: mul/div uninterpreted, conversions exact; 2: all of them uninterpreted
func (c *Ctx) headerFP(level int) string {
	var b strings.Builder
	b.WriteString("(set-option :produce-models true)\n")
	b.WriteString("(set-logic ALL)\n")
	b.WriteString("(declare-sort Str 0)\n")
	I := c.it.isort()
	B8 := c.it.sort(intKind{8, false})
	fmt.Fprintf(&b, "(declare-fun slen (Str) %s)\n(declare-fun sbytes (Str) (Array %s %s))\n(define-fun sat ((s Str) (k %s)) %s (select (sbytes s) k))\n", I, I, B8, I, B8)
	fmt.Fprintf(&b, "(declare-datatypes ((Slice 0)) (((mk_slice (sl_arr Int) (sl_off %s) (sl_len %s) (sl_cap %s)))))\n", I, I, I)
	for _, s := range c.structs {
		if !strings.Contains(s, "Iface") {
			b.WriteString(s + "\n")
		}
	}
	// interface datatype
	b.WriteString("(declare-datatypes ((Iface 0)) (((ifc_nil) (ifc_other (ifo_tag Int) (ifo_ref Int))")
	for i, t := range c.ifaceCons {
		fmt.Fprintf(&b, " (ifc_%d (ifv_%d %s))", i, i, c.sortOf(t))
	}
	b.WriteString(")))\n")
	for _, s := range c.structs {
		if strings.Contains(s, "Iface") {
			b.WriteString(s + "\n")
		}
	}
	if c.it.mode == ModeInt {
		b.WriteString(intPrelude)
	}
	if level >= 1 {
		b.WriteString(fpAbstract)
	} else {
		b.WriteString(fpExact)
	}
	if c.it.mode == ModeBV {
		if level >= 2 {
			b.WriteString(fpAbstractBV)
		} else {
			b.WriteString(fpExactBV)
		}
	}
	return b.String()
}

func (c *Ctx) emit(o *Obligation) string { return c.emitWith(o, nil) }

func (c *Ctx) emitWith(o *Obligation, obs []obsTerm) string { return c.emitFP(o, obs, 0) }

func (c *Ctx) emitFP(o *Obligation, obs []obsTerm, fpAbs int) string {
	c.computeDeps()
	need := map[string]bool{}
	var work []string
	addToks := func(text string) {
		for _, tok := range tokRe.FindAllString(text, -1) {
			if _, ok := c.declIdx[tok]; ok && !need[tok] {
				need[tok] = true
				work = append(work, tok)
			}
		}
	}
	addToks(o.Guard)
	addToks(o.Goal)
	for _, ob := range obs {
		addToks(ob.Term)
	}
	for {
		for len(work) > 0 {
			n := work[len(work)-1]
			work = work[:len(work)-1]
			for _, dep := range c.declIdx[n].deps {
				if !need[dep] {
					need[dep] = true
					work = append(work, dep)
				}
			}
		}
		// owned axioms whose owner is needed pull in their own deps
		changed := false
		for _, d := range c.decls {
			if d.name == "" && (d.owner == "" || need[d.owner]) {
				for _, dep := range d.deps {
					if !need[dep] {
						need[dep] = true
						work = append(work, dep)
						changed = true
					}
				}
			}
		}
		if !changed {
			break
		}
	}
	var b strings.Builder
	fmt.Fprintf(&b, "; obligation %s\n; kind %s  pos %s\n", o.Name, o.Kind, o.Pos)
	b.WriteString(c.headerFP(fpAbs))
	for _, d := range c.decls {
		if d.name != "" {
			if need[d.name] {
				b.WriteString(d.text + "\n")
			}
		} else if d.owner == "" || need[d.owner] {
			if d.soft && o.ExpectSat {
				continue
			}
			b.WriteString(d.text + "\n")
		}
	}
	fmt.Fprintf(&b, "(assert %s)\n", o.Guard)
	if o.ExpectSat {
		fmt.Fprintf(&b, "(assert %s)\n", o.Goal)
	} else {
		fmt.Fprintf(&b, "(assert (not %s))\n", o.Goal)
	}
	b.WriteString("(check-sat)\n")
	return b.String()
}
