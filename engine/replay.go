package main

import (
	"bytes"
	"context"
	"encoding/json"
	"fmt"
	"go/types"
	"math/big"
	"os"
	"os/exec"
	"path/filepath"
	"regexp"
	"strconv"
	"strings"
	"time"
)

type replayResult struct {
	Path      string
	Confirmed bool
	Summary   string
}

type replayFile struct {
	Property     string            `json:"property"`
	Obligation   string            `json:"obligation"`
	Kind         string            `json:"kind"`
	Clause       string            `json:"clause"`
	Function     string            `json:"function"`
	Result       string            `json:"result"`
	Solver       string            `json:"solver"`
	SMTFile      string            `json:"smt_file"`
	SolverOutput string            `json:"solver_output"`
	Inputs       map[string]string `json:"inputs,omitempty"`
	GoTest       string            `json:"go_test,omitempty"`
	ReplayCmd    string            `json:"replay_cmd,omitempty"`
	ReplayOutput string            `json:"replay_output,omitempty"`
	Confirmed    bool              `json:"confirmed_on_real_code"`
	Note         string            `json:"note,omitempty"`
}

func writeReplay(l *Loaded, cs *ContractSet, prop string, r *FuncResult, o *Obligation) replayResult {
	dir := filepath.Join(verifDir, "replays", prop)
	os.MkdirAll(dir, 0o755)
	path := filepath.Join(dir, filepath.Base(oblFile(o.Name))+".json")
	rf := &replayFile{Property: prop, Obligation: o.Name, Kind: o.Kind, Clause: o.Pos, Function: o.Func, Result: o.Result, Solver: o.Solver,
		SMTFile: o.File, SolverOutput: o.RawOut}
	// keep a copy of the SMT query next to the replay file (build/ is scratch)
	if data, err := os.ReadFile(o.File); err == nil {
		cp := path[:len(path)-5] + ".smt2"
		os.WriteFile(cp, data, 0o644)
		rf.SMTFile = cp
	}
	res := replayResult{Path: path}
	if o.Result == "refuted" {
		tryGoReplay(l, cs, r, o, rf)
	} else {
		rf.Note = "the solver produced no model (" + o.Result + "): the obligation passed on the unchanged tree and no longer discharges"
	}
	res.Confirmed = rf.Confirmed
	res.Summary = rf.Note
	data, _ := json.MarshalIndent(rf, "", " ")
	os.WriteFile(path, data, 0o644)
	return res
}


// ---------------------------------------------------------------------------------------------
// Go-level replay: build the model's inputs, call the real function in an in-package test injected
// with `go test -overlay` (nothing is written to /repo), observe panic / timeout / violated ensures.
// ---------------------------------------------------------------------------------------------

const replayHelperMlrval = `package mlrval

// overlay-only helper for counterexample replay (never on disk in /repo)
func VerifReplayMake(mvtype int, intf interface{}, printrep string, printrepValid bool) *Mlrval {
	return &Mlrval{mvtype: MVType(mvtype), intf: intf, printrep: printrep, printrepValid: printrepValid}
}
func VerifReplayDescribe(mv *Mlrval) string {
	if mv == nil {
		return "<nil>"
	}
	return fmtReplay(mv)
}
`

const replayHelperMlrval2 = `
func fmtReplay(mv *Mlrval) string {
	return "type=" + mv.GetTypeName() + " value=" + mv.String()
}
`

func parseIntValue(v string) (*big.Int, bool) {
	v = strings.TrimSpace(v)
	if strings.HasPrefix(v, "#x") {
		n, ok := new(big.Int).SetString(v[2:], 16)
		return n, ok
	}
	if strings.HasPrefix(v, "#b") {
		n, ok := new(big.Int).SetString(v[2:], 2)
		return n, ok
	}
	if strings.HasPrefix(v, "(- ") {
		n, ok := new(big.Int).SetString(strings.TrimSuffix(v[3:], ")"), 10)
		if ok {
			n.Neg(n)
		}
		return n, ok
	}
	if strings.HasPrefix(v, "(_ bv") {
		fs := strings.Fields(v)
		n, ok := new(big.Int).SetString(fs[1][2:], 10)
		return n, ok
	}
	n, ok := new(big.Int).SetString(v, 10)
	return n, ok
}

func goIntLit(v string, k intKind) (string, bool) {
	n, ok := parseIntValue(v)
	if !ok {
		return "", false
	}
	n.Mod(n, pow2[k.bits])
	if k.signed && n.Cmp(k.max()) > 0 {
		n.Sub(n, pow2[k.bits])
	}
	return n.String(), true
}

var fpRe = regexp.MustCompile(`^\(fp (#[bx][0-9a-fA-F]+) (#[bx][0-9a-fA-F]+) (#[bx][0-9a-fA-F]+)\)$`)

func goFloatLit(v string) (string, bool) {
	v = strings.TrimSpace(v)
	switch {
	case strings.HasPrefix(v, "(_ +zero"):
		return "0.0", true
	case strings.HasPrefix(v, "(_ -zero"):
		return "math.Copysign(0, -1)", true
	case strings.HasPrefix(v, "(_ +oo"):
		return "math.Inf(1)", true
	case strings.HasPrefix(v, "(_ -oo"):
		return "math.Inf(-1)", true
	case strings.HasPrefix(v, "(_ NaN"):
		return "math.NaN()", true
	}
	m := fpRe.FindStringSubmatch(v)
	if m == nil {
		return "", false
	}
	sg, _ := parseIntValue(m[1])
	ex, _ := parseIntValue(m[2])
	mn, _ := parseIntValue(m[3])
	if sg == nil || ex == nil || mn == nil {
		return "", false
	}
	bits := new(big.Int).Lsh(sg, 63)
	bits.Or(bits, new(big.Int).Lsh(ex, 52))
	bits.Or(bits, mn)
	return fmt.Sprintf("math.Float64frombits(0x%s)", bits.Text(16)), true
}

func goStringLit(model map[string]string, label string) (string, bool) {
	lv, ok := model[label+".len"]
	if !ok {
		return "", false
	}
	n, ok := parseIntValue(lv)
	if !ok || n.Sign() < 0 || n.Cmp(big.NewInt(4096)) > 0 {
		return "", false
	}
	ln := int(n.Int64())
	bs := make([]byte, ln)
	for i := 0; i < ln; i++ {
		bs[i] = 'x'
		if v, ok := model[fmt.Sprintf("%s[%d]", label, i)]; ok {
			if b, ok := parseIntValue(v); ok {
				bs[i] = byte(b.Int64() & 0xff)
			}
		}
	}
	return strconv.Quote(string(bs)), true
}

// Go expression for an interface payload value like (ifc_3 #x...) given the ctx registry
func (c *Ctx) goIfaceLit(v string) (string, bool) {
	v = strings.TrimSpace(v)
	if v == "ifc_nil" {
		return "nil", true
	}
	ss := parseSexps(v)
	if len(ss) != 1 || len(ss[0].list) != 2 || !strings.HasPrefix(ss[0].list[0].atom, "ifc_") {
		return "", false
	}
	k, err := strconv.Atoi(ss[0].list[0].atom[4:])
	if err != nil || k >= len(c.ifaceCons) {
		return "", false
	}
	t := c.ifaceCons[k]
	pay := ss[0].list[1].String()
	if ik, ok := typeIntKind(t); ok {
		lit, ok := goIntLit(pay, ik)
		return fmt.Sprintf("%s(%s)", types.TypeString(t, nil), lit), ok
	}
	if _, ok := isFloatType(t); ok {
		lit, ok := goFloatLit(pay)
		return fmt.Sprintf("float64(%s)", lit), ok
	}
	if isBoolType(t) {
		return pay, pay == "true" || pay == "false"
	}
	return "", false
}

func tryGoReplay(l *Loaded, cs *ContractSet, r *FuncResult, o *Obligation, rf *replayFile) {
	rf.Inputs = o.Model
	rf.Note = "model found; Go-level replay not available for this function's parameter types"
	ct := r.Contract
	if ct == nil || ct.Fn == nil || r.Tr == nil || len(o.Model) == 0 {
		return
	}
	fn := ct.Fn
	pkgPath := fn.Pkg.Pkg.Path()
	inMlrval := strings.HasSuffix(pkgPath, "/pkg/mlrval")
	mq := "mlrval."
	if inMlrval {
		mq = ""
	}
	var args []string
	for _, p := range fn.Params {
		label := p.Name()
		t := p.Type()
		var expr string
		ok := false
		switch {
		case shortType(t) == "[]uint8":
			lv, has := o.Model[label+".len"]
			if n, okn := parseIntValue(lv); has && okn && n.Sign() >= 0 && n.Int64() <= 6 {
				var bs []string
				for k := 0; k < int(n.Int64()); k++ {
					b, okb := parseIntValue(o.Model[fmt.Sprintf("%s[%d]", label, k)])
					if !okb {
						b = big.NewInt('x')
					}
					bs = append(bs, fmt.Sprint(b.Int64()&0xff))
				}
				expr, ok = "[]byte{"+strings.Join(bs, ", ")+"}", true
			}
		case isStringType(t):
			expr, ok = goStringLit(o.Model, label)
		case isBoolType(t):
			expr, ok = o.Model[label], o.Model[label] == "true" || o.Model[label] == "false"
		default:
			if k, isInt := typeIntKind(t); isInt {
				var lit string
				lit, ok = goIntLit(o.Model[label], k)
				expr = fmt.Sprintf("%s(%s)", types.TypeString(t, func(p *types.Package) string { return p.Name() }), lit)
			} else if _, isF := isFloatType(t); isF {
				expr, ok = goFloatLit(o.Model[label])
			} else if shortType(t) == "*mlrval.Mlrval" {
				if o.Model[label] == "0" {
					expr, ok = "nil", true
					break
				}
				kind, ok1 := goIntLit(o.Model[label+".mvtype"], intKind{8, true})
				intf, ok2 := "nil", true
				if v, has := o.Model[label+".intf"]; has {
					intf, ok2 = r.Ctx.goIfaceLit(v)
					if !ok2 {
						// payload of a kind the replay cannot rebuild (collections, functions): nil payload;
						// acceptable whenever the kind does not carry a payload (empty, string, absent, error ...)
						intf, ok2 = "nil", true
					}
				}
				pr, ok3 := goStringLit(o.Model, label+".printrep")
				if !ok3 {
					pr, ok3 = `""`, true
				}
				valid := o.Model[label+".printrepValid"]
				if valid == "" {
					valid = "false"
				}
				if !ok1 {
					kind, ok1 = "-1", true
				}
				expr, ok = fmt.Sprintf("%sVerifReplayMake(%s, %s, %s, %s)", mq, kind, intf, pr, valid), ok1 && ok2 && ok3
			}
		}
		if !ok {
			rf.Note = fmt.Sprintf("model found; parameter %s of type %s cannot be rebuilt from the model for a Go-level replay", label, t)
			return
		}
		args = append(args, expr)
	}
	// call expression
	call := fn.Name() + "(" + strings.Join(args, ", ") + ")"
	if fn.Signature.Recv() != nil {
		call = "(" + args[0] + ")." + fn.Name() + "(" + strings.Join(args[1:], ", ") + ")"
	}
	nres := fn.Signature.Results().Len()
	var lhs []string
	for i := 0; i < nres; i++ {
		lhs = append(lhs, fmt.Sprintf("r%d", i))
	}
	var body strings.Builder
	for i, a := range args {
		fmt.Fprintf(&body, "\t\ta%d := %s\n", i, a)
	}
	callArgs := make([]string, len(args))
	for i := range args {
		callArgs[i] = fmt.Sprintf("a%d", i)
	}
	call = fn.Name() + "(" + strings.Join(callArgs, ", ") + ")"
	if fn.Signature.Recv() != nil {
		call = callArgs[0] + "." + fn.Name() + "(" + strings.Join(callArgs[1:], ", ") + ")"
	}
	// the rebuilt inputs must satisfy the contract's requires, otherwise the replay says nothing
	useSynth := false
	if !strings.Contains(strings.Join(args, " "), "VerifReplayMake") || true {
		for _, cl := range ct.Requires {
			if cl.Name == "" {
				continue
			}
			approx := false
			for _, w := range []string{"fresh(", "unchanged(", "allocated(", "funcIs(", "inClass(", "forallp(", "forallstr(", "forallint(", "ghostInt(", "ghostSeq(", "hasKey("} {
				if strings.Contains(cl.Text, w) {
					approx = true
				}
			}
			if approx {
				continue
			}
			useSynth = true
			fmt.Fprintf(&body, "\t\tif !%s(%s) {\n\t\t\tdone <- \"INPUT-REJECTED: rebuilt input does not satisfy requires: %s\"\n\t\t\treturn\n\t\t}\n", cl.Name, strings.Join(callArgs, ", "), strings.ReplaceAll(strings.ReplaceAll(cl.Text, `\`, ``), `"`, `'`))
		}
	}
	if nres > 0 {
		fmt.Fprintf(&body, "\t\t%s := %s\n", strings.Join(lhs, ", "), call)
	} else {
		fmt.Fprintf(&body, "\t\t%s\n", call)
	}
	// violated ensures?
	ensFn := ""
	if o.Kind == "post" {
		var idx int
		if _, err := fmt.Sscanf(o.Name[strings.LastIndex(o.Name, "#post.")+6:], "%d", &idx); err == nil && idx >= 1 && idx <= len(ct.Ensures) {
			cl := ct.Ensures[idx-1]
			approx := false
			for _, w := range []string{"fresh(", "unchanged(", "allocated(", "funcIs(", "inClass(", "forallp(", "forallstr(", "forallint(", "popcount(", "ffloor(", "fceil(", "fround(", "ftrunc("} {
				if strings.Contains(cl.Text, w) {
					approx = true
				}
			}
			if !approx {
				ensFn = cl.Name
			}
		}
	}
	desc := "\"\""
	if nres > 0 {
		var ds []string
		for i := 0; i < nres; i++ {
			if shortType(fn.Signature.Results().At(i).Type()) == "*mlrval.Mlrval" {
				ds = append(ds, fmt.Sprintf("%sVerifReplayDescribe(r%d)", mq, i))
			} else {
				ds = append(ds, fmt.Sprintf("fmt.Sprintf(\"%%v\", r%d)", i))
			}
		}
		desc = strings.Join(ds, " + \" | \" + ")
	}
	if ensFn != "" {
		fmt.Fprintf(&body, "\t\tens := %s(%s)\n", ensFn, strings.Join(append(callArgs, lhs...), ", "))
		fmt.Fprintf(&body, "\t\tdone <- fmt.Sprintf(\"RETURNED ensures=%%v result: %%s\", ens, %s)\n", desc)
	} else {
		fmt.Fprintf(&body, "\t\tdone <- fmt.Sprintf(\"RETURNED result: %%s\", %s)\n", desc)
	}
	imports := "\t\"fmt\"\n\t\"math\"\n\t\"testing\"\n\t\"time\"\n"
	if !inMlrval && strings.Contains(body.String(), "mlrval.") {
		imports += "\t\"" + modPath + "/pkg/mlrval\"\n"
	}
	test := fmt.Sprintf(`package %s

import (
%s)

var _ = math.Pi

func TestVerifReplay(t *testing.T) {
	done := make(chan string, 1)
	go func() {
		defer func() {
			if r := recover(); r != nil {
				done <- fmt.Sprintf("PANIC: %%v", r)
			}
		}()
%s	}()
	select {
	case s := <-done:
		fmt.Println("VERIF-REPLAY:", s)
	case <-time.After(20 * time.Second):
		fmt.Println("VERIF-REPLAY: TIMEOUT (no result after 20s)")
	}
}
`, fn.Pkg.Pkg.Name(), imports, body.String())
	rf.GoTest = test
	// overlay
	tmp, err := os.MkdirTemp("", "mlrvc-replay")
	if err != nil {
		return
	}
	defer os.RemoveAll(tmp)
	ov := map[string]string{}
	write := func(real, content string) {
		p := filepath.Join(tmp, fmt.Sprintf("f%d.go", len(ov)))
		os.WriteFile(p, []byte(content), 0o644)
		ov[real] = p
	}
	pkgDir := filepath.Join(repoDir, strings.TrimPrefix(pkgPath, modPath+"/"))
	write(filepath.Join(pkgDir, "verif_replay_gen_test.go"), test)
	write(filepath.Join(repoDir, "pkg/mlrval/verif_replay_helper_gen.go"), replayHelperMlrval+replayHelperMlrval2)
	if ensFn != "" || useSynth {
		for k, v := range cs.Overlay {
			write(k, string(v))
		}
	}
	pfile := repoDir + "/pkg/parsing/parser/parser.go"
	if st, err := os.Stat(pfile); err == nil && st.Size() == 0 {
		if _, err := os.Stat(filepath.Join(verifDir, "build", "parser.go")); err == nil {
			ov[pfile] = filepath.Join(verifDir, "build", "parser.go")
		} else {
			write(pfile, parserStub)
		}
	}
	ovj, _ := json.Marshal(map[string]interface{}{"Replace": ov})
	ovPath := filepath.Join(tmp, "overlay.json")
	os.WriteFile(ovPath, ovj, 0o644)
	ctx, cancel := context.WithTimeout(context.Background(), 240*time.Second)
	defer cancel()
	cmd := exec.CommandContext(ctx, "go", "test", "-overlay", ovPath, "-vet=off", "-v", "-count=1", "-timeout", "60s", "-run", "^TestVerifReplay$", "./"+strings.TrimPrefix(pkgPath, modPath+"/"))
	cmd.Dir = repoDir
	var buf bytes.Buffer
	cmd.Stdout, cmd.Stderr = &buf, &buf
	cmd.Run()
	out := buf.String()
	rf.ReplayCmd = "cd /repo && go test -overlay <overlay.json: in-package test above + helper> -vet=off -count=1 -timeout 60s -run '^TestVerifReplay$' ./" + strings.TrimPrefix(pkgPath, modPath+"/")
	if len(out) > 6000 {
		out = out[:6000]
	}
	rf.ReplayOutput = out
	line := ""
	for _, ln := range strings.Split(out, "\n") {
		if strings.HasPrefix(ln, "VERIF-REPLAY:") {
			line = strings.TrimSpace(ln[13:])
		}
	}
	switch {
	case line == "":
		rf.Note = "replay did not run to completion (see replay_output)"
	case strings.HasPrefix(line, "INPUT-REJECTED"):
		rf.Note = "not confirmed: " + line
	case strings.HasPrefix(line, "PANIC") || strings.HasPrefix(line, "TIMEOUT"):
		// a panic confirms safety obligations; for post obligations a panic is also a violation of "returns normally"
		rf.Confirmed = true
		rf.Note = "confirmed on the real code: " + line
	case strings.Contains(line, "ensures=false"):
		rf.Confirmed = true
		rf.Note = "confirmed on the real code: " + line
	default:
		rf.Note = "not confirmed by the Go-level replay: " + line
	}
}
