package main

import (
	"fmt"
	"go/types"
	"math/big"
	"sort"
	"strings"
)

// ---------------------------------------------------------------------------------------------
// SMT text helpers. Terms are plain strings (s-expressions). Every SSA value becomes a
// (define-fun name () Sort term) so that the text stays linear in the size of the function.
// ---------------------------------------------------------------------------------------------

type Sx = string

func sx(op string, args ...Sx) Sx {
	return "(" + op + " " + strings.Join(args, " ") + ")"
}

func and(args ...Sx) Sx {
	var a []Sx
	for _, x := range args {
		if x == "true" || x == "" {
			continue
		}
		if x == "false" {
			return "false"
		}
		a = append(a, x)
	}
	switch len(a) {
	case 0:
		return "true"
	case 1:
		return a[0]
	}
	return sx("and", a...)
}

func or(args ...Sx) Sx {
	var a []Sx
	for _, x := range args {
		if x == "false" || x == "" {
			continue
		}
		if x == "true" {
			return "true"
		}
		a = append(a, x)
	}
	switch len(a) {
	case 0:
		return "false"
	case 1:
		return a[0]
	}
	return sx("or", a...)
}

func not(a Sx) Sx {
	if a == "true" {
		return "false"
	}
	if a == "false" {
		return "true"
	}
	return sx("not", a)
}

func imp(a, b Sx) Sx {
	if a == "true" {
		return b
	}
	if a == "false" || b == "true" {
		return "true"
	}
	return sx("=>", a, b)
}

func ite(c, a, b Sx) Sx {
	if c == "true" {
		return a
	}
	if c == "false" {
		return b
	}
	if a == b {
		return a
	}
	return sx("ite", c, a, b)
}

func eq(a, b Sx) Sx { return sx("=", a, b) }

// ---------------------------------------------------------------------------------------------
// Integer theory: "bv" (exact machine bit-vectors) or "int" (mathematical Int + explicit wrap).
// Both are faithful to Go's wrap-around semantics.
// ---------------------------------------------------------------------------------------------

type Mode int

const (
	ModeBV Mode = iota
	ModeInt
)

func (m Mode) String() string {
	if m == ModeBV {
		return "bv"
	}
	return "int"
}

type intKind struct {
	bits   int
	signed bool
}

func basicIntKind(b *types.Basic) (intKind, bool) {
	switch b.Kind() {
	case types.Int, types.Int64, types.UntypedInt, types.UntypedRune:
		return intKind{64, true}, true
	case types.Int32:
		return intKind{32, true}, true
	case types.Int16:
		return intKind{16, true}, true
	case types.Int8:
		return intKind{8, true}, true
	case types.Uint, types.Uint64, types.Uintptr:
		return intKind{64, false}, true
	case types.Uint32:
		return intKind{32, false}, true
	case types.Uint16:
		return intKind{16, false}, true
	case types.Uint8:
		return intKind{8, false}, true
	}
	return intKind{}, false
}

func typeIntKind(t types.Type) (intKind, bool) {
	if b, ok := t.Underlying().(*types.Basic); ok {
		return basicIntKind(b)
	}
	return intKind{}, false
}

func isFloatType(t types.Type) (int, bool) {
	if b, ok := t.Underlying().(*types.Basic); ok {
		switch b.Kind() {
		case types.Float64, types.UntypedFloat:
			return 64, true
		case types.Float32:
			return 32, true
		}
	}
	return 0, false
}

func isStringType(t types.Type) bool {
	if b, ok := t.Underlying().(*types.Basic); ok {
		return b.Kind() == types.String || b.Kind() == types.UntypedString
	}
	return false
}

func isBoolType(t types.Type) bool {
	if b, ok := t.Underlying().(*types.Basic); ok {
		return b.Kind() == types.Bool || b.Kind() == types.UntypedBool
	}
	return false
}

var pow2 = func() []*big.Int {
	r := make([]*big.Int, 130)
	for i := range r {
		r[i] = new(big.Int).Lsh(big.NewInt(1), uint(i))
	}
	return r
}()

func (k intKind) min() *big.Int {
	if !k.signed {
		return big.NewInt(0)
	}
	return new(big.Int).Neg(pow2[k.bits-1])
}
func (k intKind) max() *big.Int {
	if !k.signed {
		return new(big.Int).Sub(pow2[k.bits], big.NewInt(1))
	}
	return new(big.Int).Sub(pow2[k.bits-1], big.NewInt(1))
}

func intLit(v *big.Int) Sx {
	if v.Sign() < 0 {
		return "(- " + new(big.Int).Neg(v).String() + ")"
	}
	return v.String()
}

// IntT: operations over the chosen integer theory.
type IntT struct{ mode Mode }

func (it IntT) sort(k intKind) Sx {
	if it.mode == ModeBV {
		return fmt.Sprintf("(_ BitVec %d)", k.bits)
	}
	return "Int"
}

// I64 is the sort of int / len / index values.
func (it IntT) isort() Sx { return it.sort(intKind{64, true}) }

func (it IntT) konst(k intKind, v *big.Int) Sx {
	if it.mode == ModeBV {
		w := new(big.Int).Mod(v, pow2[k.bits]) // two's complement
		return fmt.Sprintf("(_ bv%s %d)", w.String(), k.bits)
	}
	// wrap into range
	w := new(big.Int).Set(v)
	if w.Cmp(k.min()) < 0 || w.Cmp(k.max()) > 0 {
		w.Mod(w, pow2[k.bits])
		if k.signed && w.Cmp(k.max()) > 0 {
			w.Sub(w, pow2[k.bits])
		}
	}
	return intLit(w)
}

func (it IntT) iconst(v int64) Sx { return it.konst(intKind{64, true}, big.NewInt(v)) }

// wrap: reduce a mathematical Int term into k's range (int mode only).
func (it IntT) wrap(k intKind, t Sx) Sx {
	if it.mode == ModeBV {
		return t
	}
	return sx(fmt.Sprintf("wrap%s%d", map[bool]string{true: "s", false: "u"}[k.signed], k.bits), t)
}

func (it IntT) inRange(k intKind, t Sx) Sx {
	if it.mode == ModeBV {
		return "true"
	}
	return sx("and", sx("<=", intLit(k.min()), t), sx("<=", t, intLit(k.max())))
}

func (it IntT) add(k intKind, a, b Sx) Sx {
	if it.mode == ModeBV {
		if a == fmt.Sprintf("(_ bv0 %d)", k.bits) {
			return b
		}
		if b == fmt.Sprintf("(_ bv0 %d)", k.bits) {
			return a
		}
		return sx("bvadd", a, b)
	}
	if a == "0" {
		return b
	}
	if b == "0" {
		return a
	}
	return it.wrap(k, sx("+", a, b))
}
// addNW: addition of quantities known not to overflow (slice offsets and lengths are bounded by
// 2^40 by the well-formedness facts of every slice value), so no wrap in the int encoding.
func (it IntT) subNW(a, b Sx) Sx {
	if it.mode == ModeBV {
		return it.sub(I64, a, b)
	}
	if b == "0" {
		return a
	}
	return sx("-", a, b)
}

func (it IntT) addNW(a, b Sx) Sx {
	if it.mode == ModeBV {
		return it.add(I64, a, b)
	}
	if a == "0" {
		return b
	}
	if b == "0" {
		return a
	}
	return sx("+", a, b)
}

func (it IntT) sub(k intKind, a, b Sx) Sx {
	if it.mode == ModeBV {
		return sx("bvsub", a, b)
	}
	return it.wrap(k, sx("-", a, b))
}
func (it IntT) mul(k intKind, a, b Sx) Sx {
	if it.mode == ModeBV {
		return sx("bvmul", a, b)
	}
	return it.wrap(k, sx("*", a, b))
}
func (it IntT) neg(k intKind, a Sx) Sx {
	if it.mode == ModeBV {
		return sx("bvneg", a)
	}
	return it.wrap(k, sx("-", a))
}

// quo/rem: Go truncated division; caller guarantees b != 0 by an obligation.
func (it IntT) quo(k intKind, a, b Sx) Sx {
	if it.mode == ModeBV {
		if k.signed {
			return sx("bvsdiv", a, b)
		}
		return sx("bvudiv", a, b)
	}
	if !k.signed {
		return sx("div", a, b)
	}
	return it.wrap(k, sx("tdiv", a, b))
}
func (it IntT) rem(k intKind, a, b Sx) Sx {
	if it.mode == ModeBV {
		if k.signed {
			return sx("bvsrem", a, b)
		}
		return sx("bvurem", a, b)
	}
	if !k.signed {
		return sx("mod", a, b)
	}
	return sx("tmod", a, b)
}

func (it IntT) lt(k intKind, a, b Sx) Sx {
	if it.mode == ModeBV {
		if k.signed {
			return sx("bvslt", a, b)
		}
		return sx("bvult", a, b)
	}
	return sx("<", a, b)
}
func (it IntT) le(k intKind, a, b Sx) Sx {
	if it.mode == ModeBV {
		if k.signed {
			return sx("bvsle", a, b)
		}
		return sx("bvule", a, b)
	}
	return sx("<=", a, b)
}

// conv converts an integer term from kind f to kind t.
func (it IntT) conv(f, t intKind, a Sx) Sx {
	if it.mode == ModeBV {
		switch {
		case f.bits == t.bits:
			return a
		case f.bits > t.bits:
			return sx(fmt.Sprintf("(_ extract %d 0)", t.bits-1), a)
		default:
			if f.signed {
				return sx(fmt.Sprintf("(_ sign_extend %d)", t.bits-f.bits), a)
			}
			return sx(fmt.Sprintf("(_ zero_extend %d)", t.bits-f.bits), a)
		}
	}
	// int mode: value preserved if representable else wrapped
	if f == t {
		return a
	}
	if t.min().Cmp(f.min()) <= 0 && t.max().Cmp(f.max()) >= 0 {
		return a
	}
	return it.wrap(t, a)
}

func (it IntT) band(k intKind, a, b Sx) Sx {
	if it.mode == ModeBV {
		return sx("bvand", a, b)
	}
	return sx("uf_and", a, b)
}
func (it IntT) bor(k intKind, a, b Sx) Sx {
	if it.mode == ModeBV {
		return sx("bvor", a, b)
	}
	return sx("uf_or", a, b)
}
func (it IntT) bxor(k intKind, a, b Sx) Sx {
	if it.mode == ModeBV {
		return sx("bvxor", a, b)
	}
	return sx("uf_xor", a, b)
}
func (it IntT) bandnot(k intKind, a, b Sx) Sx {
	if it.mode == ModeBV {
		return sx("bvand", a, sx("bvnot", b))
	}
	return sx("uf_andnot", a, b)
}
func (it IntT) bnot(k intKind, a Sx) Sx {
	if it.mode == ModeBV {
		return sx("bvnot", a)
	}
	if k.signed {
		return sx("-", sx("-", a), "1")
	}
	return sx("-", intLit(k.max()), a)
}

// shifts. The shift count has already been converted to an unsigned value of k.bits bits
// (bv mode) or a non-negative Int (int mode); "count >= width" gives 0 / sign fill as in Go.
func (it IntT) shl(k intKind, a, n Sx) Sx {
	if it.mode == ModeBV {
		return sx("bvshl", a, n) // SMT-LIB: shift >= width yields 0, as in Go
	}
	return sx("uf_shl", a, n)
}
func (it IntT) shr(k intKind, a, n Sx) Sx {
	if it.mode == ModeBV {
		if k.signed {
			return sx("bvashr", a, n) // >= width yields sign fill, as in Go
		}
		return sx("bvlshr", a, n)
	}
	return sx("uf_shr", a, n)
}

const intPrelude = `
(define-fun wraps64 ((x Int)) Int (ite (and (<= (- 9223372036854775808) x) (<= x 9223372036854775807)) x (- (mod (+ x 9223372036854775808) 18446744073709551616) 9223372036854775808)))
(define-fun wrapu64 ((x Int)) Int (ite (and (<= 0 x) (<= x 18446744073709551615)) x (mod x 18446744073709551616)))
(define-fun wraps32 ((x Int)) Int (ite (and (<= (- 2147483648) x) (<= x 2147483647)) x (- (mod (+ x 2147483648) 4294967296) 2147483648)))
(define-fun wrapu32 ((x Int)) Int (ite (and (<= 0 x) (<= x 4294967295)) x (mod x 4294967296)))
(define-fun wraps16 ((x Int)) Int (ite (and (<= (- 32768) x) (<= x 32767)) x (- (mod (+ x 32768) 65536) 32768)))
(define-fun wrapu16 ((x Int)) Int (ite (and (<= 0 x) (<= x 65535)) x (mod x 65536)))
(define-fun wraps8 ((x Int)) Int (ite (and (<= (- 128) x) (<= x 127)) x (- (mod (+ x 128) 256) 128)))
(define-fun wrapu8 ((x Int)) Int (ite (and (<= 0 x) (<= x 255)) x (mod x 256)))
(define-fun tdiv ((a Int) (b Int)) Int (ite (>= a 0) (ite (> b 0) (div a b) (- (div a (- b)))) (ite (> b 0) (- (div (- a) b)) (div (- a) (- b)))))
(define-fun tmod ((a Int) (b Int)) Int (- a (* b (tdiv a b))))
(declare-fun uf_and (Int Int) Int)
(declare-fun uf_or (Int Int) Int)
(declare-fun uf_xor (Int Int) Int)
(declare-fun uf_andnot (Int Int) Int)
(declare-fun uf_shl (Int Int) Int)
(declare-fun uf_shr (Int Int) Int)
`

const F64 = "(_ FloatingPoint 11 53)"
const F32 = "(_ FloatingPoint 8 24)"

// sorted keys helper
func sortedKeys[V any](m map[string]V) []string {
	ks := make([]string, 0, len(m))
	for k := range m {
		ks = append(ks, k)
	}
	sort.Strings(ks)
	return ks
}

// sanitize a Go identifier/type string into an SMT simple symbol fragment
func sym(s string) string {
	var b strings.Builder
	for _, r := range s {
		switch {
		case r >= 'a' && r <= 'z', r >= 'A' && r <= 'Z', r >= '0' && r <= '9', r == '_', r == '.':
			b.WriteRune(r)
		case r == '*':
			b.WriteString("ptr_")
		case r == '[':
			b.WriteString("_L")
		case r == ']':
			b.WriteString("R_")
		case r == '/':
			b.WriteString(".")
		default:
			b.WriteString("_")
		}
	}
	return b.String()
}
