package main

import (
	"fmt"
	"go/ast"
	"go/constant"
	"go/token"
	"go/types"
	"math"
	"math/big"
	"sort"
	"strings"

	"golang.org/x/tools/go/ast/astutil"
	"golang.org/x/tools/go/ssa"
)

func bigInt(v int64) *big.Int { return big.NewInt(v) }

// ---------------------------------------------------------------------------------------------
// Values, addresses, states
// ---------------------------------------------------------------------------------------------

// Val is the translator's view of a Go value: an SMT term, or (for things that are not SMT
// values) a symbolic address / tuple / statically known function.
type Val struct {
	t    Sx
	addr *Addr
	tup  []Val
	fn   *ssa.Function    // statically known function value
	clo  *ssa.MakeClosure // closure with bindings
	cloB []Val
	rng  *rangeIter
	typ  types.Type
	gl   *ssa.Global     // provenance: value or address derived from this package-level variable
	cands []*ssa.Function // function value known to be one of these
}

// Addr: location = mem[key][idxs[0]][idxs[1]]... ; typ is the pointee type.
type Addr struct {
	key  string
	idxs []Sx
	typ  types.Type
	gl   *ssa.Global
}

type rangeIter struct {
	x    Val
	typ  types.Type
	posK string // mem key holding the iterator position
}

type State struct {
	guard Sx
	mem   map[string]Sx
}

func (s *State) clone() *State {
	m := make(map[string]Sx, len(s.mem))
	for k, v := range s.mem {
		m[k] = v
	}
	return &State{guard: s.guard, mem: m}
}

type retPoint struct {
	st   *State
	vals []Val
}

// ---------------------------------------------------------------------------------------------
// Translator
// ---------------------------------------------------------------------------------------------

type Translator struct {
	c         *Ctx
	l         *Loaded
	contracts *ContractSet
	top       *ssa.Function
	topC      *Contract
	loopMods  map[string]map[string]bool // loop path key -> mem keys written inside
	modsGrew  bool
	inlineMax int
	safety    bool // generate safety obligations
	oblPrefix string
	initMem   map[string]Sx
	writeLog  []map[string]bool // stack of write collectors (for modifies checking)
	calleeStack []string
	topArgs   []Val
	topEntry  *State
	regions   map[string]Sx
	ginvDone  map[string]bool
	havocGuards []Sx // path conditions of the sites where the whole heap is havocked
}

type Frame struct {
	extCC *ssa.CallCommon // the call being handed to externalCall (for arguments wrapped into interfaces)
	tr       *Translator
	fn       *ssa.Function
	vals     map[ssa.Value]Val
	depth    int
	path     string   // inline path, used for loop keys and obligation names
	outer    []string // active caller loop keys
	edges    map[[2]int]*State
	edgeVals map[[2]int]map[*ssa.Phi]Val
	rets     []retPoint
	entry    *State
	contract *Contract // only for the top frame
	loops    map[int]*loopInfo
	headerSt map[int]*loopHeaderState
	defers   []*ssa.Defer
}

type loopInfo struct {
	header int
	body   map[int]bool
	ord    int // 1-based ordinal in source order
	key    string
}

type loopHeaderState struct {
	phiFresh map[*ssa.Phi]Val
	st       *State // state right after havoc, before assuming invariants
	measure  []Sx
	mono     map[*ssa.Phi]monoInv // accepted monotone-counter invariants of this loop
}

// monoInv: automatic invariant of a counter that only moves in one direction by constant steps:
// it never passes its value at loop entry (dir +1: phi >= entry; dir -1: phi <= entry).
type monoInv struct {
	dir   int
	entry Sx
	key   string
}

// monoMode: 1 = try every candidate (claims generation, phase A); 0 = only the candidates accepted
// in the committed claims (their keep obligations are claimed and re-proved on every run).
var monoMode int
var monoAccepted = map[string]bool{}

// monoCandidate: is phi a counter of the loop headed by its block that only moves one way?
func monoCandidate(phi *ssa.Phi) (int, bool) {
	b, ok := phi.Type().Underlying().(*types.Basic)
	if !ok || b.Info()&types.IsInteger == 0 || b.Info()&types.IsUnsigned != 0 {
		return 0, false
	}
	hb := phi.Block()
	dir := 0
	back := false
	for i, e := range phi.Edges {
		if !hb.Dominates(hb.Preds[i]) {
			continue // entry edge
		}
		back = true
		if e == ssa.Value(phi) {
			continue
		}
		bo, ok := e.(*ssa.BinOp)
		if !ok {
			return 0, false
		}
		step := func(v ssa.Value) bool {
			c, ok := v.(*ssa.Const)
			if !ok || c.Value == nil {
				return false
			}
			k, ok := constant.Int64Val(constant.ToInt(c.Value))
			return ok && k > 0 && k < 1<<30
		}
		d := 0
		switch {
		case bo.Op == token.ADD && bo.X == ssa.Value(phi) && step(bo.Y):
			d = 1
		case bo.Op == token.ADD && bo.Y == ssa.Value(phi) && step(bo.X):
			d = 1
		case bo.Op == token.SUB && bo.X == ssa.Value(phi) && step(bo.Y):
			d = -1
		default:
			return 0, false
		}
		if dir != 0 && dir != d {
			return 0, false
		}
		dir = d
	}
	return dir, back && dir != 0
}

func (tr *Translator) memInit(key string, ms memSort) Sx {
	if n, ok := tr.initMem[key]; ok {
		return n
	}
	sort := ms.leaf
	for i := len(ms.idx) - 1; i >= 0; i-- {
		sort = sx("Array", ms.idx[i], sort)
	}
	n := "H0_" + sym(key)
	tr.c.addDecl(n, fmt.Sprintf("(declare-const %s %s)", n, sort), "")
	tr.initMem[key] = n
	tr.globalInitFacts(key, n)
	return n
}

func (tr *Translator) memSortFull(key string) Sx {
	ms := tr.c.memSorts[key]
	sort := ms.leaf
	for i := len(ms.idx) - 1; i >= 0; i-- {
		sort = sx("Array", ms.idx[i], sort)
	}
	return sort
}

func (tr *Translator) memGet(st *State, key string) Sx {
	if v, ok := st.mem[key]; ok {
		return v
	}
	ms, ok := tr.c.memSorts[key]
	if !ok {
		panic("memGet: unknown key " + key)
	}
	return tr.memInit(key, ms)
}

func (tr *Translator) regKey(key string, idx []Sx, leaf Sx) {
	if _, ok := tr.c.memSorts[key]; !ok {
		tr.c.memSorts[key] = memSort{idx: idx, leaf: leaf}
	}
}

// note a write to key for all enclosing loops
func (f *Frame) noteWrite(key string, blk int) {
	tr := f.tr
	add := func(lk string) {
		m := tr.loopMods[lk]
		if m == nil {
			m = map[string]bool{}
			tr.loopMods[lk] = m
		}
		if !m[key] {
			m[key] = true
			tr.modsGrew = true
		}
	}
	for _, li := range f.loops {
		if li.body[blk] {
			add(li.key)
		}
	}
	for _, lk := range f.outer {
		add(lk)
	}
	for _, w := range tr.writeLog {
		w[key] = true
	}
}

// ---------------------------------------------------------------------------------------------
// Addresses
// ---------------------------------------------------------------------------------------------

func derefType(t types.Type) types.Type {
	if p, ok := t.Underlying().(*types.Pointer); ok {
		return p.Elem()
	}
	return t
}

// addrOf converts a pointer value to a symbolic address of its pointee
func (tr *Translator) addrOf(v Val, ptrType types.Type) *Addr {
	if v.addr != nil {
		return v.addr
	}
	pt := derefType(ptrType)
	key := "P:" + shortType(pt)
	if _, ok := pt.Underlying().(*types.Struct); ok {
		key = "F:" + shortType(pt)
	}
	return &Addr{key: key, idxs: []Sx{v.t}, typ: pt}
}

func (tr *Translator) idxSorts(a *Addr) []Sx {
	// first index is a Ref (Int) unless the key is a global (no root index); further ones are I
	var s []Sx
	for i := range a.idxs {
		if i == 0 && !strings.HasPrefix(a.key, "G:") && !strings.HasPrefix(a.key, "L:") {
			s = append(s, "Int")
		} else {
			s = append(s, tr.c.it.isort())
		}
	}
	return s
}

// load the value at address a (flattening structs)
func (tr *Translator) load(st *State, a *Addr) Val {
	c := tr.c
	switch u := a.typ.Underlying().(type) {
	case *types.Struct:
		s := c.structSort(a.typ, u)
		if u.NumFields() == 0 {
			return Val{t: sx("mk_"+s, "false"), typ: a.typ}
		}
		var fs []Sx
		for i := 0; i < u.NumFields(); i++ {
			fa := &Addr{key: a.key + "." + u.Field(i).Name(), idxs: a.idxs, typ: u.Field(i).Type()}
			fs = append(fs, tr.load(st, fa).t)
		}
		return Val{t: sx("mk_"+s, fs...), typ: a.typ}
	case *types.Array:
		if _, isStruct := u.Elem().Underlying().(*types.Struct); isStruct {
			c.unsupp("load of array of structs %s", a.typ)
		}
	}
	leaf := c.sortOf(a.typ)
	tr.regKey(a.key, tr.idxSorts(a), leaf)
	t := tr.memGet(st, a.key)
	for _, i := range a.idxs {
		t = sx("select", t, i)
	}
	return Val{t: t, typ: a.typ}
}

func (f *Frame) store(st *State, a *Addr, v Val, blk int) {
	tr := f.tr
	c := tr.c
	if u, ok := a.typ.Underlying().(*types.Struct); ok {
		s := c.structSort(a.typ, u)
		for i := 0; i < u.NumFields(); i++ {
			fa := &Addr{key: a.key + "." + u.Field(i).Name(), idxs: a.idxs, typ: u.Field(i).Type()}
			f.store(st, fa, Val{t: sx(s+"."+sym(u.Field(i).Name()), v.t), typ: u.Field(i).Type()}, blk)
		}
		return
	}
	leaf := c.sortOf(a.typ)
	tr.regKey(a.key, tr.idxSorts(a), leaf)
	cur := tr.memGet(st, a.key)
	// nested store
	var build func(m Sx, idxs []Sx) Sx
	build = func(m Sx, idxs []Sx) Sx {
		if len(idxs) == 0 {
			return v.t
		}
		return sx("store", m, idxs[0], build(sx("select", m, idxs[0]), idxs[1:]))
	}
	nt := build(cur, a.idxs)
	st.mem[a.key] = c.define("H_"+a.key, tr.memSortFull(a.key), nt)
	f.noteWrite(a.key, blk)
}

// ---------------------------------------------------------------------------------------------
// Constants
// ---------------------------------------------------------------------------------------------

func fpLit(v float64, bits int) Sx {
	if bits == 32 {
		b := math.Float32bits(float32(v))
		return fmt.Sprintf("(fp #b%01b #b%08b #b%023b)", b>>31, (b>>23)&0xff, b&0x7fffff)
	}
	b := math.Float64bits(v)
	return fmt.Sprintf("(fp #b%01b #b%011b #b%052b)", b>>63, (b>>52)&0x7ff, b&0xfffffffffffff)
}

func (tr *Translator) constVal(t types.Type, cv constant.Value) Val {
	c := tr.c
	if cv == nil {
		return Val{t: c.zeroOf(t), typ: t}
	}
	if k, ok := typeIntKind(t); ok {
		var bi *big.Int
		if cv.Kind() == constant.Float {
			f, _ := constant.Float64Val(cv)
			bi, _ = big.NewFloat(f).Int(nil)
		} else {
			iv := constant.ToInt(cv)
			bi, _ = new(big.Int).SetString(iv.ExactString(), 10)
		}
		if bi == nil {
			bi = big.NewInt(0)
		}
		return Val{t: c.it.konst(k, bi), typ: t}
	}
	if bits, ok := isFloatType(t); ok {
		f, _ := constant.Float64Val(constant.ToFloat(cv))
		return Val{t: fpLit(f, bits), typ: t}
	}
	if isBoolType(t) {
		if constant.BoolVal(cv) {
			return Val{t: "true", typ: t}
		}
		return Val{t: "false", typ: t}
	}
	if isStringType(t) {
		return Val{t: c.strLit(constant.StringVal(cv)), typ: t}
	}
	c.unsupp("constant of type %s", t)
	return Val{t: c.zeroOf(t), typ: t}
}

// ---------------------------------------------------------------------------------------------
// Loop discovery
// ---------------------------------------------------------------------------------------------

func findLoops(fn *ssa.Function, path string) map[int]*loopInfo {
	loops := map[int]*loopInfo{}
	for _, b := range fn.Blocks {
		for _, s := range b.Succs {
			if s.Dominates(b) { // back edge b -> s
				li := loops[s.Index]
				if li == nil {
					li = &loopInfo{header: s.Index, body: map[int]bool{s.Index: true}}
					loops[s.Index] = li
				}
				// natural loop: nodes reaching b without passing through s
				var stack []*ssa.BasicBlock
				if !li.body[b.Index] {
					li.body[b.Index] = true
					stack = append(stack, b)
				}
				for len(stack) > 0 {
					n := stack[len(stack)-1]
					stack = stack[:len(stack)-1]
					for _, p := range n.Preds {
						if !li.body[p.Index] {
							li.body[p.Index] = true
							stack = append(stack, p)
						}
					}
				}
			}
		}
	}
	// ordinals in source order (by position of the first instruction with a position in the header,
	// falling back to block index)
	var hs []int
	for h := range loops {
		hs = append(hs, h)
	}
	posOf := func(h int) token.Pos {
		best := token.NoPos
		for bi := range loops[h].body {
			for _, in := range fn.Blocks[bi].Instrs {
				if p := in.Pos(); p.IsValid() && (best == token.NoPos || p < best) {
					best = p
				}
			}
		}
		return best
	}
	sort.Slice(hs, func(i, j int) bool {
		pi, pj := posOf(hs[i]), posOf(hs[j])
		if pi != pj {
			return pi < pj
		}
		return hs[i] < hs[j]
	})
	for i, h := range hs {
		loops[h].ord = i + 1
		loops[h].key = fmt.Sprintf("%s%s@loop%d", path, fn.Name(), i+1)
	}
	return loops
}

func rpo(fn *ssa.Function) []*ssa.BasicBlock {
	seen := map[int]bool{}
	var post []*ssa.BasicBlock
	var dfs func(b *ssa.BasicBlock)
	dfs = func(b *ssa.BasicBlock) {
		seen[b.Index] = true
		for _, s := range b.Succs {
			if !seen[s.Index] && !s.Dominates(b) {
				dfs(s)
			}
		}
		post = append(post, b)
	}
	dfs(fn.Blocks[0])
	// A topological order of the DAG without back edges: reverse postorder, but DFS postorder can
	// violate it when skipping back edges only at visit time; compute with Kahn instead.
	indeg := map[int]int{}
	for _, b := range fn.Blocks {
		if !seen[b.Index] {
			continue
		}
		for _, s := range b.Succs {
			if !s.Dominates(b) {
				indeg[s.Index]++
			}
		}
	}
	var order []*ssa.BasicBlock
	var ready []*ssa.BasicBlock
	ready = append(ready, fn.Blocks[0])
	for len(ready) > 0 {
		// pick smallest index for determinism
		sort.Slice(ready, func(i, j int) bool { return ready[i].Index < ready[j].Index })
		b := ready[0]
		ready = ready[1:]
		order = append(order, b)
		for _, s := range b.Succs {
			if s.Dominates(b) {
				continue
			}
			indeg[s.Index]--
			if indeg[s.Index] == 0 {
				ready = append(ready, s)
			}
		}
	}
	return order
}

// ---------------------------------------------------------------------------------------------
// Function execution
// ---------------------------------------------------------------------------------------------

func (tr *Translator) newFrame(fn *ssa.Function, depth int, path string, outer []string) *Frame {
	return &Frame{tr: tr, fn: fn, vals: map[ssa.Value]Val{}, depth: depth, path: path, outer: outer,
		edges: map[[2]int]*State{}, edgeVals: map[[2]int]map[*ssa.Phi]Val{}, loops: findLoops(fn, path), headerSt: map[int]*loopHeaderState{}}
}

// exec runs fn symbolically from state st with the given arguments; returns the merged return state
// and result values (nil state if no return is reachable).
func (f *Frame) exec(st *State, args []Val, freeVars []Val) (*State, []Val) {
	fn := f.fn
	tr := f.tr
	if len(fn.Blocks) == 0 {
		tr.c.unsupp("function without body: %s", fn)
		return st, nil
	}
	for i, p := range fn.Params {
		v := args[i]
		v.typ = p.Type()
		f.vals[p] = v
	}
	for i, fv := range fn.FreeVars {
		if i < len(freeVars) {
			f.vals[fv] = freeVars[i]
		}
	}
	f.entry = st.clone()
	order := rpo(fn)
	f.edges[[2]int{-1, 0}] = st
	for _, b := range order {
		bst := f.blockEntry(b)
		if bst == nil {
			continue
		}
		f.execBlock(b, bst)
	}
	// merge returns
	if len(f.rets) == 0 {
		return nil, nil
	}
	if len(f.rets) == 1 {
		return f.rets[0].st, f.rets[0].vals
	}
	var sts []*State
	for _, r := range f.rets {
		sts = append(sts, r.st)
	}
	out := tr.mergeStates(sts, "ret_"+fn.Name())
	nres := len(f.rets[0].vals)
	res := make([]Val, nres)
	for i := 0; i < nres; i++ {
		var vs []Val
		for _, r := range f.rets {
			vs = append(vs, r.vals[i])
		}
		res[i] = tr.mergeVals(sts, vs, "res_"+fn.Name())
	}
	return out, res
}

func (tr *Translator) mergeVals(sts []*State, vs []Val, name string) Val {
	// all identical?
	same := true
	for _, v := range vs[1:] {
		if v.t != vs[0].t || v.addr != vs[0].addr || v.fn != vs[0].fn {
			same = false
		}
	}
	if same {
		return vs[0]
	}
	for _, v := range vs {
		if v.addr != nil || v.tup != nil || v.rng != nil || v.clo != nil {
			tr.c.unsupp("merge of non-term values (%s)", name)
			return vs[0]
		}
	}
	// function values: convert to ids
	t := vs[len(vs)-1].t
	for i := len(vs) - 2; i >= 0; i-- {
		t = ite(sts[i].guard, vs[i].t, t)
	}
	typ := vs[0].typ
	if typ == nil {
		return Val{t: t}
	}
	return Val{t: tr.c.define(name, tr.c.sortOf(typ), t), typ: typ}
}

func (tr *Translator) mergeStates(sts []*State, name string) *State {
	if len(sts) == 1 {
		return sts[0].clone()
	}
	var gs []Sx
	keys := map[string]bool{}
	for _, s := range sts {
		gs = append(gs, s.guard)
		for k := range s.mem {
			keys[k] = true
		}
	}
	out := &State{guard: tr.c.defineBool("g_"+name, or(gs...)), mem: map[string]Sx{}}
	for _, k := range sortedKeys(keys) {
		var ts []Sx
		same := true
		for _, s := range sts {
			t := tr.memGet(s, k)
			ts = append(ts, t)
			if t != ts[0] {
				same = false
			}
		}
		if same {
			out.mem[k] = ts[0]
			continue
		}
		t := ts[len(ts)-1]
		for i := len(ts) - 2; i >= 0; i-- {
			t = ite(sts[i].guard, ts[i], t)
		}
		out.mem[k] = tr.c.define("H_"+k, tr.memSortFull(k), t)
	}
	return out
}

// blockEntry merges the incoming (non-back) edges of b and, for loop headers, cuts the loop.
func (f *Frame) blockEntry(b *ssa.BasicBlock) *State {
	tr := f.tr
	c := tr.c
	var sts []*State
	var preds []int
	if b.Index == 0 {
		sts = append(sts, f.edges[[2]int{-1, 0}])
		preds = append(preds, -1)
	}
	for _, p := range b.Preds {
		if b.Dominates(p) {
			continue // back edge
		}
		if e, ok := f.edges[[2]int{p.Index, b.Index}]; ok {
			sts = append(sts, e)
			preds = append(preds, p.Index)
		}
	}
	if len(sts) == 0 {
		return nil
	}
	st := tr.mergeStates(sts, fmt.Sprintf("b%d", b.Index))
	// phis
	phiVals := map[*ssa.Phi]Val{}
	for _, in := range b.Instrs {
		phi, ok := in.(*ssa.Phi)
		if !ok {
			continue
		}
		var vs []Val
		for _, p := range preds {
			vs = append(vs, f.edgeVals[[2]int{p, b.Index}][phi])
		}
		if len(vs) > 0 {
			v := tr.mergeVals(sts, vs, phiName(phi))
			v.typ = phi.Type()
			phiVals[phi] = v
		}
	}
	li := f.loops[b.Index]
	if li == nil {
		for phi, v := range phiVals {
			f.vals[phi] = v
		}
		return st
	}
	// ---- loop header ----
	var lspec *LoopSpec
	if f.contract != nil {
		lspec = f.contract.Loops[li.ord]
	}
	// 0. automatic invariant of range-over-slice loops: the hidden index never drops below -1
	var autoPhis []*ssa.Phi
	for _, in := range b.Instrs {
		if phi, ok := in.(*ssa.Phi); ok && (phi.Comment == "rangeindex" || phi.Comment == "rangeint.iter") {
			autoPhis = append(autoPhis, phi)
		}
	}
	for _, phi := range autoPhis {
		if ev, ok := phiVals[phi]; ok && tr.safety {
			c.addObl(&Obligation{Name: fmt.Sprintf("%s#loop%d.auto.init", tr.oblPrefix, li.ord), Kind: "inv.init",
				Guard: st.guard, Goal: f.autoRangeInv(phi, ev.t), Pos: "-1 <= rangeindex && (rangeindex == -1 || rangeindex < len)", Func: tr.oblPrefix})
		}
	}
	// 1. invariants hold on entry
	if lspec != nil {
		env := f.loopEnv(b, phiVals, st)
		for i, inv := range lspec.Invariants {
			g := tr.specBool(inv, env)
			c.addObl(&Obligation{Name: fmt.Sprintf("%s#loop%d.inv%d.init", tr.oblPrefix, li.ord, i+1), Kind: "inv.init",
				Guard: st.guard, Goal: g, Pos: inv.Text, Func: tr.oblPrefix})
		}
	}
	// 2. havoc
	hst := &State{guard: c.defineBool(fmt.Sprintf("g_loop%d", li.ord), st.guard), mem: map[string]Sx{}}
	for k, v := range st.mem {
		hst.mem[k] = v
	}
	mods := tr.loopMods[li.key]
	for _, k := range sortedKeys(mods) {
		if _, ok := c.memSorts[k]; !ok {
			continue
		}
		hst.mem[k] = c.declConst(fmt.Sprintf("Hl%d_%s", li.ord, k), tr.memSortFull(k))
		if k == "$alloc" {
			hst.guard = and(hst.guard, sx("<=", tr.memGet(st, k), hst.mem[k]))
		}
	}
	hs := &loopHeaderState{phiFresh: map[*ssa.Phi]Val{}}
	var facts []Sx
	for _, in := range b.Instrs {
		phi, ok := in.(*ssa.Phi)
		if !ok {
			continue
		}
		ev := phiVals[phi]
		if ev.addr != nil || ev.rng != nil || ev.tup != nil {
			c.unsupp("loop-carried non-term value %s in %s", phi.Name(), f.fn.Name())
			hs.phiFresh[phi] = ev
			f.vals[phi] = ev
			continue
		}
		// if all back-edge operands are the phi itself or identical to the entry value, keep the value
		fv := Val{t: c.declConst(phiName(phi), c.sortOf(phi.Type())), typ: phi.Type()}
		hs.phiFresh[phi] = fv
		f.vals[phi] = fv
		facts = append(facts, tr.typeFacts(hst, fv)...)
	}
	for _, phi := range autoPhis {
		facts = append(facts, f.autoRangeInv(phi, hs.phiFresh[phi].t))
	}
	// monotone counters (only loops of the function under proof itself, not of inlined callees)
	if f.depth == 0 {
		for _, in := range b.Instrs {
			phi, ok := in.(*ssa.Phi)
			if !ok || phi.Comment == "rangeindex" || phi.Comment == "rangeint.iter" {
				continue
			}
			dir, ok := monoCandidate(phi)
			ev, has := phiVals[phi]
			fv := hs.phiFresh[phi]
			if !ok || !has || ev.t == "" || fv.t == "" || ev.addr != nil {
				continue
			}
			key := fmt.Sprintf("%s#loop%d.mono.%s", tr.oblPrefix, li.ord, phiName(phi))
			if monoMode == 0 && !monoAccepted[key] {
				continue
			}
			if hs.mono == nil {
				hs.mono = map[*ssa.Phi]monoInv{}
			}
			hs.mono[phi] = monoInv{dir: dir, entry: ev.t, key: key}
			k, _ := basicIntKind(phi.Type().Underlying().(*types.Basic))
			if dir > 0 {
				facts = append(facts, c.it.le(k, ev.t, fv.t))
			} else {
				facts = append(facts, c.it.le(k, fv.t, ev.t))
			}
			c.note("automatic invariant of monotone loop counters (never passes the value at loop entry); accepted ones are listed in the claims and re-proved on every run")
		}
	}
	hst.guard = and(append([]Sx{hst.guard}, facts...)...)
	// global invariants are loop invariants of every loop: assumed for the havocked heap here,
	// re-proved at each back edge whose state differs (#loopK.ginv.<name>.keep)
	tr.assumeGlobalInvs(hst)
	hs.st = hst.clone()
	f.headerSt[b.Index] = hs
	// 3. assume invariants
	if lspec != nil {
		env := f.loopEnv(b, hs.phiFresh, hst)
		var invs []Sx
		for _, inv := range lspec.Invariants {
			invs = append(invs, tr.specBool(inv, env))
		}
		hst.guard = c.defineBool(fmt.Sprintf("g_loop%d_inv", li.ord), and(append([]Sx{hst.guard}, invs...)...))
		for _, d := range lspec.Decreases {
			hs.measure = append(hs.measure, tr.specTerm(d, env).t)
		}
	}
	return hst
}

// rangeBound: for a rangeindex phi t3 with header test (t3+1) < n, the SSA value n
func rangeBound(phi *ssa.Phi) ssa.Value {
	for _, in := range phi.Block().Instrs {
		lt, ok := in.(*ssa.BinOp)
		if !ok || lt.Op != token.LSS {
			continue
		}
		add, ok := lt.X.(*ssa.BinOp)
		if !ok || add.Op != token.ADD || add.X != ssa.Value(phi) {
			continue
		}
		return lt.Y
	}
	return nil
}

// autoRangeInv: -1 <= ri, and ri is -1 or below the length of the ranged value
func (f *Frame) autoRangeInv(phi *ssa.Phi, ri Sx) Sx {
	c := f.tr.c
	if phi.Comment == "rangeint.iter" {
		// `for i := range n`: the body is entered only when 0 < n; 0 <= i < n throughout
		inv := c.it.le(I64, c.it.iconst(0), ri)
		if b := rangeBound(phi); b != nil {
			if bv, ok := f.vals[b]; ok && bv.t != "" {
				inv = and(inv, c.it.lt(I64, ri, bv.t))
			} else if cv, ok := b.(*ssa.Const); ok {
				inv = and(inv, c.it.lt(I64, ri, f.tr.constVal(cv.Type(), cv.Value).t))
			}
		}
		return inv
	}
	inv := c.it.le(I64, c.it.iconst(-1), ri)
	if b := rangeBound(phi); b != nil {
		if bv, ok := f.vals[b]; ok && bv.t != "" {
			inv = and(inv, or(eq(ri, c.it.iconst(-1)), c.it.lt(I64, ri, bv.t)))
		} else if cv, ok := b.(*ssa.Const); ok {
			inv = and(inv, or(eq(ri, c.it.iconst(-1)), c.it.lt(I64, ri, f.tr.constVal(cv.Type(), cv.Value).t)))
		}
	}
	return inv
}

func phiName(phi *ssa.Phi) string {
	if phi.Comment != "" {
		return "v_" + phi.Comment
	}
	return "v_" + phi.Name()
}

// typeFacts: range facts for a fresh value of the given type (int mode ranges, pointer < alloc,
// slice well-formedness).
func (tr *Translator) typeFacts(st *State, v Val) []Sx {
	c := tr.c
	var facts []Sx
	if v.typ == nil || v.t == "" {
		return nil
	}
	switch u := v.typ.Underlying().(type) {
	case *types.Basic:
		if k, ok := basicIntKind(u); ok {
			if f := c.it.inRange(k, v.t); f != "true" {
				facts = append(facts, f)
			}
		}
		if isStringType(v.typ) {
			facts = append(facts, c.it.le(intKind{64, true}, c.it.iconst(0), sx("slen", v.t)), c.it.le(intKind{64, true}, sx("slen", v.t), c.it.iconst(1<<40)))
			c.note("lengths of strings and slices are assumed to be at most 2^40 (a memory bound)")
		}
	case *types.Pointer, *types.Map, *types.Chan:
		facts = append(facts, sx("<=", "0", v.t), sx("<", v.t, tr.allocTerm(st)))
	case *types.Slice:
		I := intKind{64, true}
		z := c.it.iconst(0)
		facts = append(facts, c.it.le(I, z, sx("sl_off", v.t)), c.it.le(I, z, sx("sl_len", v.t)),
			c.it.le(I, sx("sl_len", v.t), sx("sl_cap", v.t)),
			c.it.le(I, sx("sl_cap", v.t), c.it.iconst(1<<40)), c.it.le(I, sx("sl_off", v.t), c.it.iconst(1<<40)),
			sx("<=", "0", sx("sl_arr", v.t)), sx("<", sx("sl_arr", v.t), tr.allocTerm(st)),
			imp(eq(sx("sl_arr", v.t), "0"), eq(sx("sl_cap", v.t), z)))
	}
	return facts
}

func (tr *Translator) allocTerm(st *State) Sx {
	tr.regKey("$alloc", nil, "Int")
	return tr.memGet(st, "$alloc")
}

// execBlock executes the non-phi instructions of b
func (f *Frame) execBlock(b *ssa.BasicBlock, st *State) {
	for _, in := range b.Instrs {
		if _, ok := in.(*ssa.Phi); ok {
			continue
		}
		if st.guard == "false" {
			// still need to register values to keep later lookups safe
		}
		if !f.execInstr(b, st, in) {
			return
		}
	}
}

// record the state along edge b -> succ
func (f *Frame) takeEdge(b *ssa.BasicBlock, succ *ssa.BasicBlock, st *State) {
	tr := f.tr
	c := tr.c
	// phi operand values along this edge
	pv := map[*ssa.Phi]Val{}
	predIdx := -1
	cnt := 0
	for i, p := range succ.Preds {
		if p == b {
			if predIdx < 0 {
				predIdx = i
			}
			cnt++
		}
	}
	for _, in := range succ.Instrs {
		if phi, ok := in.(*ssa.Phi); ok {
			pv[phi] = f.val(phi.Edges[predIdx])
		}
	}
	if succ.Dominates(b) {
		// back edge: check invariants and variant
		li := f.loops[succ.Index]
		hs := f.headerSt[succ.Index]
		if li != nil && tr.safety && hs != nil {
			for phi, v := range pv {
				if mi, ok := hs.mono[phi]; ok && v.t != "" {
					k, _ := basicIntKind(phi.Type().Underlying().(*types.Basic))
					goal := c.it.le(k, mi.entry, v.t)
					pos := "counter >= its value at loop entry"
					if mi.dir < 0 {
						goal = c.it.le(k, v.t, mi.entry)
						pos = "counter <= its value at loop entry"
					}
					c.addObl(&Obligation{Name: mi.key + ".keep", Kind: "inv.keep", Guard: st.guard, Goal: goal, Pos: pos, Func: tr.oblPrefix})
				}
			}
		}
		if li != nil && tr.safety {
			for phi, v := range pv {
				if phi.Comment == "rangeindex" || phi.Comment == "rangeint.iter" {
					c.addObl(&Obligation{Name: fmt.Sprintf("%s#loop%d.auto.keep", tr.oblPrefix, li.ord), Kind: "inv.keep",
						Guard: st.guard, Goal: f.autoRangeInv(phi, v.t), Pos: "-1 <= rangeindex && (rangeindex == -1 || rangeindex < len)", Func: tr.oblPrefix})
				}
			}
		}
		if li != nil && tr.safety && hs != nil && hs.st != nil {
			for _, gi := range tr.contracts.GInvs {
				if gi.Clause.Expr == nil {
					continue
				}
				e1 := &Env{tr: tr, vars: map[string]Val{}, st: st, old: st, info: gi.Clause.Info}
				e0 := &Env{tr: tr, vars: map[string]Val{}, st: hs.st, old: hs.st, info: gi.Clause.Info}
				g1, g0 := e1.expr(gi.Clause.Expr).t, e0.expr(gi.Clause.Expr).t
				if g1 == g0 {
					continue // the loop body did not write anything the invariant reads
				}
				c.addObl(&Obligation{Name: fmt.Sprintf("%s#loop%d.ginv.%s.keep", tr.oblPrefix, li.ord, gi.Name), Kind: "inv.keep",
					Guard: st.guard, Goal: g1, Pos: gi.Clause.Text, Func: tr.oblPrefix})
			}
		}
		var lspec *LoopSpec
		if f.contract != nil && li != nil {
			lspec = f.contract.Loops[li.ord]
		}
		if lspec != nil && hs != nil {
			env := f.loopEnv(succ, pv, st)
			for i, inv := range lspec.Invariants {
				g := tr.specBool(inv, env)
				c.addObl(&Obligation{Name: fmt.Sprintf("%s#loop%d.inv%d.keep", tr.oblPrefix, li.ord, i+1), Kind: "inv.keep",
					Guard: st.guard, Goal: g, Pos: inv.Text, Func: tr.oblPrefix})
			}
			for i, d := range lspec.Decreases {
				m1 := tr.specTerm(d, env).t
				I := intKind{64, true}
				goal := and(c.it.le(I, c.it.iconst(0), hs.measure[i]), c.it.lt(I, m1, hs.measure[i]))
				c.addObl(&Obligation{Name: fmt.Sprintf("%s#loop%d.dec", tr.oblPrefix, li.ord), Kind: "dec",
					Guard: st.guard, Goal: goal, Pos: d.Text, Func: tr.oblPrefix})
			}
		}
		return
	}
	key := [2]int{b.Index, succ.Index}
	if old, ok := f.edges[key]; ok {
		// two edges between the same blocks (e.g. if c goto X else X): merge
		m := tr.mergeStates([]*State{old, st}, "dup")
		f.edges[key] = m
		_ = cnt
		return
	}
	f.edges[key] = st
	f.edgeVals[key] = pv
}

func (f *Frame) val(v ssa.Value) Val {
	tr := f.tr
	switch x := v.(type) {
	case *ssa.Const:
		return tr.constVal(x.Type(), x.Value)
	case *ssa.Global:
		key := "G:" + strings.TrimPrefix(strings.TrimPrefix(x.Pkg.Pkg.Path(), modPath+"/pkg/"), modPath+"/") + "." + x.Name()
		return Val{addr: &Addr{key: key, typ: derefType(x.Type()), gl: x}, typ: x.Type(), gl: x}
	case *ssa.Function:
		return Val{t: tr.c.funcID(x), fn: x, typ: x.Type()}
	case *ssa.ChangeType:
		if fn := asStaticFunc(x); fn != nil {
			return Val{t: tr.c.funcID(fn), fn: fn, typ: x.Type()}
		}
	case *ssa.Builtin:
		return Val{typ: x.Type()}
	}
	if r, ok := f.vals[v]; ok {
		return r
	}
	tr.c.unsupp("use of untranslated value %s (%T) in %s", v.Name(), v, f.fn.Name())
	r := Val{t: tr.c.declConst("undef_"+v.Name(), tr.c.sortOf(v.Type())), typ: v.Type()}
	f.vals[v] = r
	return r
}

// source text of the smallest interesting expression enclosing pos
func (tr *Translator) srcText(fn *ssa.Function, pos token.Pos) string {
	if !pos.IsValid() || fn.Pkg == nil {
		return "?"
	}
	pkg := tr.l.ByPath[fn.Pkg.Pkg.Path()]
	if pkg == nil {
		return "?"
	}
	for _, file := range pkg.Syntax {
		if file.Pos() <= pos && pos <= file.End() {
			path, _ := astutil.PathEnclosingInterval(file, pos, pos)
			for _, n := range path {
				switch n.(type) {
				case *ast.IndexExpr, *ast.SliceExpr, *ast.BinaryExpr, *ast.CallExpr, *ast.TypeAssertExpr, *ast.StarExpr, *ast.SelectorExpr, *ast.UnaryExpr, *ast.AssignStmt, *ast.RangeStmt:
					p0 := tr.l.Prog.Fset.Position(n.Pos())
					p1 := tr.l.Prog.Fset.Position(n.End())
					if rs, ok := n.(*ast.RangeStmt); ok {
						p1 = tr.l.Prog.Fset.Position(rs.Body.Lbrace)
					}
					src := tr.fileSrc(p0.Filename)
					if src != nil && p1.Offset <= len(src) {
						s := strings.Join(strings.Fields(string(src[p0.Offset:p1.Offset])), " ")
						if len(s) > 80 {
							s = s[:80]
						}
						return s
					}
				}
			}
		}
	}
	return "?"
}

var fileCache = map[string][]byte{}

func (tr *Translator) fileSrc(name string) []byte {
	if b, ok := fileCache[name]; ok {
		return b
	}
	b, err := readFileOverlay(name)
	if err != nil {
		return nil
	}
	fileCache[name] = b
	return b
}

func (f *Frame) safetyObl(st *State, kind string, goal Sx, in ssa.Instruction) {
	tr := f.tr
	if !tr.safety {
		st.guard = and(st.guard, goal)
		return
	}
	txt := tr.srcText(f.fn, in.Pos())
	name := fmt.Sprintf("%s#safe.%s:", tr.oblPrefix, kind)
	if f.depth > 0 {
		name += f.fn.Name() + ":"
	}
	name += txt
	pos := tr.l.Prog.Fset.Position(in.Pos()).String()
	tr.c.addObl(&Obligation{Name: name, Kind: "safe." + kind, Guard: st.guard, Goal: goal, Pos: pos, Func: tr.oblPrefix})
	// after the check the property may be assumed (each failure is reported once, at its root)
	st.guard = tr.c.defineBool("g_after_"+kind, and(st.guard, goal))
}
