package main

import (
	"regexp"
	"golang.org/x/tools/go/ssa"
	"strconv"
	"encoding/json"
	"fmt"
	"os"
	"path/filepath"
	"sort"
	"strings"
	"time"
)

const verifDir = "/verif"

type KnownFinding struct {
	Property   string `json:"property"`
	Obligation string `json:"obligation"` // obligation name
	Func       string `json:"func"`       // qualified function whose parameters the region speaks about
	Region     string `json:"region"`     // contract-language predicate over the function's inputs ("" = whole obligation)
	Witness    string `json:"witness"`
	What       string `json:"what"`
	Status     string `json:"status"` // "open" or "fixed: <commit>"
}

type kfFile struct {
	Findings []KnownFinding `json:"findings"`
	Fixed    []string       `json:"fixed"`
}

func loadKnownFindings() []KnownFinding {
	data, err := os.ReadFile(filepath.Join(verifDir, "known_findings.json"))
	if err != nil {
		return nil
	}
	var f kfFile
	if err := json.Unmarshal(data, &f); err != nil {
		fmt.Fprintln(os.Stderr, "known_findings.json:", err)
		os.Exit(3)
	}
	var out []KnownFinding
	for _, k := range f.Findings {
		if k.Status == "" || k.Status == "open" {
			out = append(out, k)
		}
	}
	return out
}

type claimSet struct {
	names    map[string]bool
	complete map[string]bool // functions all of whose obligations are claimed
}

func loadClaims(prop string, tier string) *claimSet {
	cs := &claimSet{names: map[string]bool{}, complete: map[string]bool{}}
	data, err := os.ReadFile(filepath.Join(verifDir, "claims", prop+".txt"))
	if err != nil {
		return cs
	}
	for _, line := range strings.Split(string(data), "\n") {
		line = strings.TrimSpace(line)
		if line == "" || strings.HasPrefix(line, "#") {
			continue
		}
		if strings.HasPrefix(line, "auto-invariant ") {
			monoAccepted[strings.TrimSpace(line[len("auto-invariant "):])] = true
			continue
		}
		if strings.HasPrefix(line, "thorough ") {
			if tier == "thorough" {
				cs.names[strings.TrimSpace(line[9:])] = true
			}
			continue
		}
		if strings.HasPrefix(line, "complete ") {
			cs.complete[strings.TrimSpace(line[9:])] = true
			continue
		}
		cs.names[line] = true
	}
	return cs
}

type evidence struct {
	PropertyID  string                 `json:"property_id"`
	Tier        string                 `json:"tier"`
	Seed        int                    `json:"seed"`
	Level       string                 `json:"level"`
	Coverage    map[string]interface{} `json:"coverage"`
	Assumptions []string               `json:"assumptions"`
	WallS       float64                `json:"wall_s"`
	Violations  int                    `json:"violations"`
}

func hasProp(props []string, p string) bool {
	for _, x := range props {
		if x == p {
			return true
		}
	}
	return false
}

var budgetOverride int

func fnHasLoop(fn *ssa.Function) bool {
	for _, b := range fn.Blocks {
		for _, s := range b.Succs {
			if s.Dominates(b) {
				return true
			}
		}
	}
	return false
}

// claimsDirty: (incremental claims generation) does the function lack claims altogether?
// Functions whose claimed obligations disappeared are caught later by the ordinary dirty logic;
// for the monotone-counter phase a function with existing claims keeps its accepted counters.
var forceDirty = map[string]bool{}
var trustClean bool
var dirtyRe *regexp.Regexp
var claimsFnCache map[string]bool

func claimsDirty(prop, qual string) bool {
	if claimsFnCache == nil {
		claimsFnCache = map[string]bool{}
		data, _ := os.ReadFile(filepath.Join(verifDir, "claims", prop+".txt"))
		for _, line := range strings.Split(string(data), "\n") {
			t := strings.TrimSpace(line)
			for _, pre := range []string{"thorough ", "complete ", "auto-invariant "} {
				t = strings.TrimPrefix(t, pre)
			}
			claimsFnCache[funcOfObl(t)] = true
		}
	}
	return !claimsFnCache[qual]
}
var incremental bool // with --gen-claims: keep the claims of functions whose claimed obligations all still exist and pass

// funcOfObl: the function part of an obligation name
func funcOfObl(name string) string {
	if i := strings.Index(name, "#"); i >= 0 {
		return name[:i]
	}
	return name
}

func cmdCheck(args []string) {
	t0 := time.Now()
	prop, tier := "", "quick"
	genClaims := false
	for i := 0; i < len(args); i++ {
		switch args[i] {
		case "--property":
			i++
			prop = args[i]
		case "--tier":
			i++
			tier = args[i]
		case "--gen-claims":
			genClaims = true
		case "--incremental":
			incremental = true
		case "--trust-clean":
			// with --incremental: do not re-solve the claimed obligations of clean functions
			incremental = true
			trustClean = true
		case "--dirty":
			// with --incremental: regexp over function names to regenerate regardless of their claims
			i++
			dirtyRe = regexp.MustCompile(args[i])
		case "--budget":
			i++
			fmt.Sscanf(args[i], "%d", &budgetOverride)
		}
	}
	if t := os.Getenv("VERIF_TIER"); t != "" && tier == "" {
		tier = t
	}
	if prop == "" {
		fmt.Fprintln(os.Stderr, "usage: mlrvc check --property Cxx [--tier quick|thorough]")
		os.Exit(2)
	}
	seed := 0
	fmt.Sscanf(os.Getenv("VERIF_SEED"), "%d", &seed)
	smtDir = filepath.Join(verifDir, "build", "smt", prop)
	os.RemoveAll(smtDir)
	os.MkdirAll(smtDir, 0o755)

	kfs := loadKnownFindings()
	cs, err := parseContractFiles(nil)
	if err == nil {
		cs.KFs = kfs
		err = cs.buildOverlay()
	}
	var l *Loaded
	if err == nil {
		overlayFiles = cs.Overlay
		l, err = loadRepo(cs.Overlay, []string{"./pkg/..."})
	}
	if err != nil {
		fmt.Printf("UNDECIDED engine-error property=%s: %v\n", prop, err)
		writeEvidence(prop, tier, seed, nil, nil, nil, nil, time.Since(t0).Seconds(), 0, "engine error: "+err.Error())
		os.Exit(3)
	}
	drift := cs.resolve(l)
	claims := loadClaims(prop, tier)

	budget := 20
	if tier == "thorough" {
		budget = 120
	}
	if budgetOverride > 0 {
		budget = budgetOverride
	}
	var results []*FuncResult
	var driftHere []string
	if genClaims {
		// phase A: which monotone-counter invariants can be established? (see vc.go: monoInv)
		oldAccepted := monoAccepted
		monoAccepted = map[string]bool{}
		monoMode = 1
		var phaseA []*FuncResult
		redo := map[string]bool{}
		for _, ct := range cs.List {
			if !hasProp(ct.Properties, prop) || ct.IfaceMethod || ct.Fn == nil || ct.Trusted || !fnHasLoop(ct.Fn) {
				continue
			}
			if incremental && !claimsDirty(prop, ct.Qual) && os.Getenv("MLRVC_REMONO") == "" && !(dirtyRe != nil && dirtyRe.MatchString(ct.Qual)) {
				for k := range oldAccepted {
					if strings.HasPrefix(k, ct.Qual+"#") {
						monoAccepted[k] = true
					}
				}
				continue
			}
			redo[ct.Qual] = true
			phaseA = append(phaseA, verifyContract(l, cs, ct))
		}
		solveAll(phaseA, 5, 16, func(o *Obligation) bool { return strings.Contains(o.Name, ".mono.") })
		bad := map[string]bool{}
		seen := map[string]bool{}
		for _, r := range phaseA {
			for _, o := range r.Obls {
				if i := strings.Index(o.Name, ".keep"); i > 0 && strings.Contains(o.Name, ".mono.") {
					key := o.Name[:i]
					seen[key] = true
					if o.Result != "proved" {
						bad[key] = true
					}
				}
			}
		}
		for k := range seen {
			if !bad[k] {
				monoAccepted[k] = true
				if !oldAccepted[k] {
					forceDirty[funcOfObl(k)] = true // new invariant: the function's obligations are re-solved
				}
			}
		}
		for k := range oldAccepted {
			if redo[funcOfObl(k)] && !monoAccepted[k] {
				forceDirty[funcOfObl(k)] = true
			}
		}
		monoMode = 0
		fmt.Fprintf(os.Stderr, "[mono] %d candidate counters, %d accepted (%d functions examined)\n", len(seen), len(seen)-len(bad), len(phaseA))
	}
	for _, ct := range cs.List {
		if !hasProp(ct.Properties, prop) {
			continue
		}
		if ct.IfaceMethod {
			continue
		}
		if ct.Fn == nil {
			driftHere = append(driftHere, ct.Qual)
			continue
		}
		if ct.Trusted {
			continue
		}
		if ct.ThoroughOnly && tier != "thorough" && !genClaims {
			continue
		}
		results = append(results, verifyContract(l, cs, ct))
	}
	_ = drift
	for _, lm := range cs.Lemmas {
		if hasProp(lm.Properties, prop) {
			results = append(results, verifyLemma(l, cs, lm))
		}
	}
	for _, tb := range cs.Tables {
		if hasProp(tb.Properties, prop) {
			results = append(results, verifyTable(l, cs, tb))
		}
	}
	for _, d := range cs.FlagDrift {
		if prop == "C02" {
			driftHere = append(driftHere, d)
		}
	}
	// A contract that names a loop the function no longer has: the stale loop clauses are ignored
	// (reported below as a note), the other obligations of the function are checked as usual -- a
	// postcondition that was discharged with the help of the old invariants and no longer is shows
	// up as a claimed obligation that fails.
	for _, r := range results {
		for _, u := range r.Unsupported {
			if strings.Contains(u, "contract names loop") || strings.Contains(u, "loop structure mismatch") {
				fmt.Printf("NOTE stale loop clauses in the contract of %s: %s\n", r.Name(), u)
			}
		}
	}
	if len(driftHere) > 0 {
		for _, d := range driftHere {
			fmt.Printf("UNDECIDED contract-drift property=%s %s (function named by a contract no longer exists)\n", prop, d)
		}
		writeEvidence(prop, tier, seed, results, claims, nil, nil, time.Since(t0).Seconds(), 0, "contract drift: "+strings.Join(driftHere, ", "))
		os.Exit(3)
	}

	// known findings: derive the two obligations per finding
	kfByObl := map[string]*KnownFinding{}
	for i := range kfs {
		if kfs[i].Property == prop {
			kfByObl[kfs[i].Obligation] = &kfs[i]
		}
	}
	type kfPair struct {
		kf      *KnownFinding
		outside *Obligation // requires ∧ ¬region ⇒ goal   (must be proved)
		inside  *Obligation // requires ∧ region ∧ ¬goal   (still SAT => finding still present)
		res     *FuncResult
	}
	var kfPairs []*kfPair
	for _, r := range results {
		var extra []*Obligation
		for _, o := range r.Obls {
			kf := kfByObl[o.Name]
			if kf == nil {
				continue
			}
			region := "true"
			if kf.Region != "" {
				rt, ok := r.Regions[kf.Obligation]
				if !ok {
					fmt.Printf("UNDECIDED engine-error property=%s: region of known finding %s not compiled\n", prop, kf.Obligation)
					os.Exit(3)
				}
				region = rt
			}
			p := &kfPair{kf: kf, res: r}
			p.outside = &Obligation{Name: o.Name + "@outside-known-region", Kind: o.Kind, Guard: and(o.Guard, not(region)), Goal: o.Goal, Pos: o.Pos, Func: o.Func}
			for _, cs := range o.Cases {
				p.outside.Cases = append(p.outside.Cases, oblCase{Guard: and(cs.Guard, not(region)), Goal: cs.Goal})
			}
			p.inside = &Obligation{Name: o.Name + "@known-region", Kind: o.Kind, Guard: and(o.Guard, region), Goal: not(o.Goal), ExpectSat: true, Pos: o.Pos, Func: o.Func}
			o.Result = "known-finding"
			extra = append(extra, p.outside, p.inside)
			kfPairs = append(kfPairs, p)
		}
		r.Obls = append(r.Obls, extra...)
	}

	// which functions have default (swept) contracts; which need their claims regenerated
	sweptFn := map[string]bool{}
	dirtyFn := map[string]bool{}
	if genClaims && incremental {
		claims = loadClaims(prop, "thorough")
	}
	{
		present := map[string]bool{}
		hasClaim := map[string]bool{}
		for n := range claims.names {
			hasClaim[funcOfObl(n)] = true
		}
		for _, r := range results {
			if r.Contract != nil && r.Contract.Swept {
				sweptFn[r.Name()] = true
			}
			for _, o := range r.Obls {
				present[o.Name] = true
				// a kind of obligation added to the engine after the claims were written
				if genClaims && incremental && (o.Kind == "call.reach" || (o.Kind == "cover" && strings.Contains(o.Name, "#callsite."))) && !claims.names[o.Name] {
					dirtyFn[r.Name()] = true
				}
			}
			if !hasClaim[r.Name()] || forceDirty[r.Name()] || (dirtyRe != nil && dirtyRe.MatchString(r.Name())) {
				dirtyFn[r.Name()] = true
			}
		}
		for n := range claims.names {
			if !present[n] {
				dirtyFn[funcOfObl(n)] = true
			}
		}
	}
	inScope := func(o *Obligation) bool {
		if o.Result == "known-finding" {
			return false
		}
		base := strings.TrimSuffix(strings.TrimSuffix(o.Name, "@outside-known-region"), "@known-region")
		if genClaims && incremental {
			if trustClean {
				return dirtyFn[funcOfObl(base)]
			}
			return claims.names[base] || dirtyFn[funcOfObl(base)]
		}
		if genClaims {
			return true
		}
		if tier == "thorough" && !sweptFn[funcOfObl(base)] {
			return true // explicit contracts: every obligation is attempted and reported
		}
		return claims.names[base] || claims.complete[o.Func]
	}
	fmt.Fprintf(os.Stderr, "[timing] load+vcgen %.1fs (%d functions)\n", time.Since(t0).Seconds(), len(results))
	if genClaims {
		solveAll(results, budget, 16, inScope)
	} else {
		// claimed obligations get the tier's budget; unclaimed ones (attempted and reported in the
		// thorough tier for functions under explicit contract) are informational and get at most 20 s
		isClaimed := func(o *Obligation) bool {
			base := strings.TrimSuffix(strings.TrimSuffix(o.Name, "@outside-known-region"), "@known-region")
			return claims.names[base] || claims.complete[o.Func]
		}
		solveAll(results, budget, 16, func(o *Obligation) bool { return inScope(o) && isClaimed(o) })
		ub := budget
		if ub > 20 {
			ub = 20
		}
		solveAll(results, ub, 16, func(o *Obligation) bool { return inScope(o) && !isClaimed(o) && o.Result == "" })
	}
	fmt.Fprintf(os.Stderr, "[timing] first solve pass done at %.1fs\n", time.Since(t0).Seconds())
	// retry failed claimed obligations with 4x budget before declaring failure
	retry := func(o *Obligation) bool {
		if !inScope(o) {
			return false
		}
		base := strings.TrimSuffix(o.Name, "@outside-known-region")
		claimed := claims.names[base] || claims.complete[o.Func]
		// (vacuity checks are not retried: an unknown there is undecided, never a violation)
		return claimed && o.Result == "unknown" && !o.ExpectSat && !genClaims && !strings.HasSuffix(o.Name, "@known-region")
	}
	solveAll(results, budget*4, 16, retry)

	if genClaims && incremental {
		// functions with a claimed obligation that no longer passes are regenerated too
		more := false
		for _, r := range results {
			for _, o := range r.Obls {
				if claims.names[o.Name] && o.Result != "" && o.Result != "proved" && o.Result != "sat-ok" && o.Result != "known-finding" && !dirtyFn[funcOfObl(o.Name)] {
					dirtyFn[funcOfObl(o.Name)] = true
					more = true
				}
			}
		}
		if more {
			solveAll(results, budget, 16, func(o *Obligation) bool { return o.Result == "" && inScope(o) })
		}
		writeClaimsIncremental(prop, results, dirtyFn)
		return
	}
	if genClaims {
		writeClaims(prop, results)
		return
	}

	// ---- renumbering tolerance ----
	// Safety and call-site obligations are named by the text of the expression plus an occurrence
	// number. An edit that adds or removes an occurrence shifts the numbers, so a claimed name can
	// come to denote a site that never was provable. When a claimed occurrence fails, all
	// occurrences of the same text in the function are solved; if at least as many of them are
	// proved as were claimed, the failure is a renumbering (undecided), not a violation.
	occBase := func(name string) string {
		if i := strings.LastIndex(name, "#"); i > 0 && strings.Contains(name[:i], "#") {
			if _, err := strconv.Atoi(name[i+1:]); err == nil {
				return name[:i]
			}
		}
		return ""
	}
	renumbered := map[string]bool{}
	{
		failedBases := map[string]bool{}
		for _, r := range results {
			for _, o := range r.Obls {
				if claims.names[o.Name] && !o.ExpectSat && o.Result != "" && o.Result != "proved" && o.Result != "known-finding" {
					if b := occBase(o.Name); b != "" {
						failedBases[b] = true
					}
				}
			}
		}
		if len(failedBases) > 0 {
			solveAll(results, budget, 16, func(o *Obligation) bool { return o.Result == "" && failedBases[occBase(o.Name)] })
			claimedCount := map[string]int{}
			for n := range claims.names {
				if b := occBase(n); failedBases[b] {
					claimedCount[b]++
				}
			}
			provedNow := map[string]int{}
			for _, r := range results {
				for _, o := range r.Obls {
					if b := occBase(o.Name); failedBases[b] && o.Result == "proved" {
						provedNow[b]++
					}
				}
			}
			for b := range failedBases {
				if provedNow[b] >= claimedCount[b] {
					renumbered[b] = true
				}
			}
		}
	}

	// ---- verdicts ----
	violations := 0
	var samples []map[string]interface{}
	nObl, nDis := 0, 0
	byBackend := map[string]int{}
	solverTime := 0.0
	var undecided []string
	var vacuous []string
	var kfLines []string
	for _, r := range results {
		for _, o := range r.Obls {
			if o.Result == "" || o.Result == "known-finding" {
				continue
			}
			if strings.HasSuffix(o.Name, "@known-region") {
				continue
			}
			base := strings.TrimSuffix(o.Name, "@outside-known-region")
			claimed := claims.names[base]
			ok := o.Result == "proved" || o.Result == "sat-ok"
			solverTime += o.TimeS
			if claimed && !ok && renumbered[occBase(base)] {
				undecided = append(undecided, fmt.Sprintf("%s: %s (occurrences of this expression were renumbered by an edit; as many are proved as were claimed)", o.Name, o.Result))
				continue
			}
			if claimed {
				nObl++
				if ok {
					nDis++
					byBackend[o.Solver]++
					if len(samples) < 12 {
						samples = append(samples, map[string]interface{}{"obligation": o.Name, "kind": o.Kind, "result": o.Result, "solver": o.Solver, "time_s": round3(o.TimeS), "clause": o.Pos})
					}
					continue
				}
				if o.ExpectSat {
					// vacuity checks (must be SAT): "unknown" is undecided, never a property violation;
					// UNSAT means a contradictory precondition or an encoding hole: engine alarm.
					nObl--
					if o.Result == "vacuous" {
						vacuous = append(vacuous, o.Name)
					} else {
						undecided = append(undecided, fmt.Sprintf("%s: %s (vacuity check)", o.Name, o.Result))
					}
					continue
				}
				// a claimed obligation no longer discharges
				violations++
				rp := writeReplay(l, cs, prop, r, o)
				suffix := ""
				if !rp.Confirmed {
					suffix = " no-failing-input-found"
				}
				fmt.Printf("VIOLATION property=%s replay=%s%s\n", prop, rp.Path, suffix)
				fmt.Printf("  obligation %s: %s (%s)\n  clause: %s\n", o.Name, o.Result, o.Solver, o.Pos)
				if rp.Summary != "" {
					fmt.Printf("  replay: %s\n", rp.Summary)
				}
				continue
			}
			if !ok {
				undecided = append(undecided, fmt.Sprintf("%s: %s", o.Name, o.Result))
			}
		}
	}
	if os.Getenv("VERIF_TIMING") != "" {
		for _, r := range results {
			for _, o := range r.Obls {
				if o.TimeS > 3 {
					fmt.Printf("timing: %6.1fs %-8s %-7s %s\n", o.TimeS, o.Result, o.Solver, o.Name)
				}
			}
		}
	}
	for _, p := range kfPairs {
		if p.inside.Result == "sat-ok" || p.inside.Result == "unknown" {
			kfLines = append(kfLines, fmt.Sprintf("KNOWN-FINDING: property=%s %s [%s; witness %s]", prop, p.kf.What, p.kf.Obligation, p.kf.Witness))
		}
	}
	sort.Strings(kfLines)
	for _, k := range kfLines {
		fmt.Println(k)
	}
	// claimed obligations that were not generated at all
	gen := map[string]bool{}
	for _, r := range results {
		for _, o := range r.Obls {
			gen[strings.TrimSuffix(o.Name, "@outside-known-region")] = true
		}
	}
	var absent []string
	for n := range claims.names {
		if !gen[n] {
			absent = append(absent, n)
		}
	}
	sort.Strings(absent)
	if nObl == 0 {
		fmt.Printf("UNDECIDED engine-error property=%s: no claimed obligation was generated\n", prop)
		writeEvidence(prop, tier, seed, results, claims, nil, nil, time.Since(t0).Seconds(), 0, "no obligations")
		os.Exit(3)
	}
	extra := map[string]interface{}{
		"obligations": nObl, "discharged": nDis, "by_backend": byBackend, "solver_time_s": round3(solverTime),
		"samples": samples, "known_findings": kfLines, "claimed_but_absent": absent, "unclaimed_undecided": undecided,
	}
	writeEvidence(prop, tier, seed, results, claims, extra, kfLines, time.Since(t0).Seconds(), violations, "")
	fmt.Printf("property %s tier %s: %d/%d claimed obligations discharged, %d known findings, %d unclaimed undecided, %d claimed-but-absent, %.1fs\n",
		prop, tier, nDis, nObl, len(kfLines), len(undecided), len(absent), time.Since(t0).Seconds())
	if violations > 0 {
		os.Exit(1)
	}
	if len(vacuous) > 0 {
		for _, v := range vacuous {
			fmt.Printf("UNDECIDED vacuity property=%s %s: the precondition/path became unsatisfiable; proofs of this function are vacuous\n", prop, v)
		}
		os.Exit(3)
	}
}

func round3(x float64) float64 { return float64(int(x*1000+0.5)) / 1000 }

func writeClaims(prop string, results []*FuncResult) {
	var lines []string
	lines = append(lines, "# claimed obligations for "+prop+" (generated by `mlrvc check --gen-claims`, reviewed, committed; never written by a check run)")
	total, ok := 0, 0
	for _, r := range results {
		all := true
		var fl []string
		// The global invariants are assumed at every loop head; that is justified only if the
		// function re-establishes them at every back edge. If one of those obligations is not
		// proved, nothing of the function is claimed.
		unjustified := ""
		for _, o := range r.Obls {
			if strings.Contains(o.Name, ".ginv.") && strings.Contains(o.Name, "#loop") && o.Result != "" && o.Result != "proved" {
				unjustified = o.Name
			}
		}
		if unjustified != "" {
			fmt.Printf("not claimed (whole function): %s -- loop-head assumption %s is %s\n", r.Name(), unjustified, "not re-established")
			continue
		}
		// an obligation whose own cover (antecedent / call site reachable) is proved unsatisfiable
		// holds vacuously: never claimed
		deadCover := map[string]bool{}
		for _, o := range r.Obls {
			if strings.HasSuffix(o.Name, ".cover") && o.Result == "vacuous" {
				deadCover[strings.TrimSuffix(o.Name, ".cover")] = true
			}
		}
		for _, o := range r.Obls {
			if o.Result == "" || strings.Contains(o.Name, "@") {
				continue
			}
			if deadCover[o.Name] {
				fmt.Printf("not claimed: vacuous (its cover is unsatisfiable) %s\n", o.Name)
				continue
			}
			total++
			good := (o.Result == "proved" || o.Result == "sat-ok") && o.TimeS < 8
			if good && r.Contract != nil && r.Contract.ThoroughOnly {
				fl = append(fl, "thorough "+o.Name)
				ok++
				continue
			}
			if o.Result == "known-finding" {
				good = true
			}
			if good {
				ok++
				fl = append(fl, o.Name)
			} else if o.Result == "proved" || o.Result == "sat-ok" {
				// slow proof: claimed in the thorough tier only
				all = false
				fl = append(fl, "thorough "+o.Name)
				fmt.Printf("thorough only: %-9s %6.2fs %s\n", o.Result, o.TimeS, o.Name)
			} else {
				all = false
				fmt.Printf("not claimed: %-9s %6.2fs %s\n", o.Result, o.TimeS, o.Name)
			}
		}
		if len(r.Unsupported) > 0 {
			all = false
			for _, u := range r.Unsupported {
				fmt.Printf("unsupported in %s: %s\n", r.Name(), u)
			}
		}
		if all && len(fl) > 0 {
			lines = append(lines, "complete "+r.Name())
		}
		lines = append(lines, fl...)
	}
	var autos []string
	for _, r := range results {
		for k := range monoAccepted {
			if strings.HasPrefix(k, r.Name()+"#") {
				autos = append(autos, "auto-invariant "+k)
			}
		}
	}
	sort.Strings(autos)
	lines = append(lines, autos...)
	os.MkdirAll(filepath.Join(verifDir, "claims"), 0o755)
	os.WriteFile(filepath.Join(verifDir, "claims", prop+".txt"), []byte(strings.Join(lines, "\n")+"\n"), 0o644)
	fmt.Printf("claims/%s.txt: %d of %d obligations claimed\n", prop, ok, total)
}

// writeClaimsIncremental keeps the lines of clean functions and regenerates those of dirty ones
func writeClaimsIncremental(prop string, results []*FuncResult, dirty map[string]bool) {
	data, _ := os.ReadFile(filepath.Join(verifDir, "claims", prop+".txt"))
	oldByFn := map[string][]string{}
	for _, line := range strings.Split(string(data), "\n") {
		t := strings.TrimSpace(line)
		if t == "" || strings.HasPrefix(t, "#") {
			continue
		}
		name := strings.TrimPrefix(strings.TrimPrefix(strings.TrimPrefix(t, "thorough "), "complete "), "auto-invariant ")
		oldByFn[funcOfObl(name)] = append(oldByFn[funcOfObl(name)], t)
	}
	var dirtyResults []*FuncResult
	var lines []string
	lines = append(lines, "# claimed obligations for "+prop+" (generated by `mlrvc check --gen-claims`, reviewed, committed; never written by a check run)")
	kept := 0
	for _, r := range results {
		if dirty[r.Name()] {
			dirtyResults = append(dirtyResults, r)
			continue
		}
		lines = append(lines, oldByFn[r.Name()]...)
		kept += len(oldByFn[r.Name()])
	}
	tmp := prop + ".incr"
	writeClaims(tmp, dirtyResults)
	nd, _ := os.ReadFile(filepath.Join(verifDir, "claims", tmp+".txt"))
	os.Remove(filepath.Join(verifDir, "claims", tmp+".txt"))
	for _, line := range strings.Split(string(nd), "\n") {
		if t := strings.TrimSpace(line); t != "" && !strings.HasPrefix(t, "#") {
			lines = append(lines, t)
		}
	}
	os.WriteFile(filepath.Join(verifDir, "claims", prop+".txt"), []byte(strings.Join(lines, "\n")+"\n"), 0o644)
	fmt.Printf("claims/%s.txt: kept %d lines of clean functions, regenerated %d functions\n", prop, kept, len(dirtyResults))
}

func writeEvidence(prop, tier string, seed int, results []*FuncResult, claims *claimSet, extra map[string]interface{}, kfLines []string, wall float64, violations int, errMsg string) {
	cov := map[string]interface{}{}
	for k, v := range extra {
		cov[k] = v
	}
	var fns []string
	notes := map[string]bool{}
	var outside []string
	for _, r := range results {
		fns = append(fns, fmt.Sprintf("%s [%s]", r.Name(), r.Mode))
		for _, n := range r.Notes {
			notes[n] = true
		}
		for _, u := range r.Unsupported {
			outside = append(outside, r.Name()+": "+u)
		}
	}
	sort.Strings(fns)
	var tb []string
	for n := range notes {
		tb = append(tb, n)
	}
	sort.Strings(tb)
	tb = append(tb, "SSA construction by golang.org/x/tools/go/ssa v0.50.0; SMT solvers z3 4.8.12, z3 5.1.0, cvc5 1.0.3; the mlrvc VC generator itself (/verif/engine)")
	cov["functions_under_contract"] = fns
	cov["outside_subset"] = outside
	cov["checker_cmd"] = fmt.Sprintf("/verif/build/mlrvc check --property %s --tier %s", prop, tier)
	cov["trusted_base"] = tb
	if _, ok := cov["obligations"]; !ok {
		cov["obligations"] = 0
		cov["discharged"] = 0
	}
	if errMsg != "" {
		cov["error"] = errMsg
	}
	if _, ok := cov["samples"]; !ok {
		cov["samples"] = []string{}
	}
	ev := evidence{PropertyID: prop, Tier: tier, Seed: seed, Level: "proof", Coverage: cov, WallS: round3(wall), Violations: violations}
	ev.Assumptions = append(ev.Assumptions, tb...)
	// clauses of the property no contract in reach decides, and what is assumed (committed file,
	// generated from the same table as MANIFEST.json)
	if data, err := os.ReadFile(filepath.Join(verifDir, "not_decided.json")); err == nil {
		json.Unmarshal(data, &notDecided)
	}
	ev.Assumptions = append(ev.Assumptions, notDecided[prop]...)
	data, _ := json.MarshalIndent(ev, "", " ")
	os.MkdirAll(filepath.Join(verifDir, "evidence"), 0o755)
	os.WriteFile(filepath.Join(verifDir, "evidence", prop+".json"), data, 0o644)
}

// clauses of each property that this family of technique does not decide (travels with the evidence)
var notDecided = map[string][]string{}
