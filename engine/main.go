package main

import (
	"fmt"
	"os"
)

func main() {
	// the loader shells out to `go list`: it must find the go1.26 toolchain offline
	os.Setenv("PATH", "/opt/veriftools/go1.26.8/bin:"+os.Getenv("PATH"))
	os.Setenv("GOTOOLCHAIN", "local")
	os.Setenv("GOFLAGS", "-mod=mod")
	os.Setenv("GOPROXY", "off")
	os.Setenv("GOSUMDB", "off")
	if len(os.Args) < 2 {
		fmt.Fprintln(os.Stderr, "usage: mlrvc <cmd> ...")
		os.Exit(2)
	}
	switch os.Args[1] {
	case "ssadump":
		cmdSSADump(os.Args[2:])
	case "check":
		cmdCheck(os.Args[2:])
	case "verify":
		cmdVerify(os.Args[2:])
	default:
		fmt.Fprintln(os.Stderr, "unknown command", os.Args[1])
		os.Exit(2)
	}
}
