package main

import (
	"fmt"
	"go/types"
	"strings"

	"golang.org/x/tools/go/ssa"
)

// ---------------------------------------------------------------------------------------------
// Engine models of well-known functions, and the policy for external (non-repo) calls.
// Everything assumed here is listed in the trusted base of the evidence.
// ---------------------------------------------------------------------------------------------

var heapNeutralPrefixes = []string{
	"strings.", "strconv.", "unicode.", "unicode/utf8.", "math.", "math/bits.", "bytes.", "errors.", "fmt.",
	"time.", "path.", "path/filepath.", "os.Getenv", "os.Stat", "os.Lstat", "os.Getpid", "(*regexp.Regexp).", "regexp.", "encoding/hex.", "encoding/base64.",
	"(*encoding/base64.Encoding).", "(encoding/base64.Encoding).", "crypto/", "hash/", "(time.Time).", "(*time.Location).", "(time.Duration).", "(time.Month).", "(time.Weekday).",
	"os.IsNotExist", "os.Remove", "os.Rename", "os.Chmod", "os.CreateTemp", "os.Open", "os.OpenFile", "os.Create", "(*os.File).", "(os.FileMode).", "io.", "(*bufio.Writer).", "(*bufio.Reader).", "bufio.",
	"github.com/mattn/go-isatty.", "github.com/lestrrat-go/strftime.", "(*github.com/lestrrat-go/strftime.", "github.com/facette/natsort.", "github.com/nine-lives-later/go-windows-terminal-sequences.",
	"unicode/utf16.", "slices.", "maps.", "(*strings.Builder).", "(*bytes.Buffer).", "(*strings.Reader).", "(*strings.Replacer).", "(*sync.", "sync.", "sync/atomic.", "os.Environ", "os.Setenv", "os.Unsetenv", "os.Hostname", "os.Getwd",
	"os/exec.", "(*os/exec.Cmd).", "runtime.", "(*math/rand.Rand).", "math/rand.", "golang.org/x/text/", "(*golang.org/x/text/", "golang.org/x/term.", "golang.org/x/sys/",
	"(reflect.", "reflect.", "compress/", "(*compress/", "(*github.com/klauspost/compress/", "github.com/klauspost/compress/", "container/list.", "(*container/list.", "internal/", "encoding/json.", "(*encoding/json.", "(*github.com/johnkerl/lumin",
	"github.com/johnkerl/lumin", "github.com/pkg/profile.", "os/signal.", "os.Exit", "log.", "syscall.", "os.Pipe", "os.StartProcess", "(*os.Process).", "os.Executable", "os.ReadFile", "os.WriteFile", "os.ReadDir", "os.MkdirAll", "os.Mkdir", "os.UserHomeDir",
	"gopkg.in/yaml.v3.", "(*gopkg.in/yaml.v3.", "github.com/johnkerl/pgpg", "(*github.com/johnkerl/pgpg", "errors.Is", "errors.As", "unsafe.", "os.Args", "hash.", "os.TempDir", "(os.", "os.",
}

// functions whose result is a deterministic function of their (value) arguments
var deterministicPrefixes = []string{"strings.", "strconv.", "unicode.", "unicode/utf8.", "math.", "math/bits.", "bytes.", "path.", "path/filepath.", "encoding/hex.", "fmt.Sprint", "github.com/facette/natsort."}

func hasPrefixAny(s string, ps []string) bool {
	for _, p := range ps {
		if strings.HasPrefix(s, p) {
			return true
		}
	}
	return false
}

func (f *Frame) externalCall(b *ssa.BasicBlock, st *State, fn *ssa.Function, fname string, args []Val, rt types.Type, name string) Val {
	tr := f.tr
	c := tr.c
	neutral := hasPrefixAny(fname, heapNeutralPrefixes)
	if !neutral {
		c.note(fmt.Sprintf("external call %s: unknown effect, heap havocked", fname))
		f.havocAll(b, st, "external "+fname)
		return f.freshResult(st, rt, name)
	}
	c.note("external library calls (stdlib and third-party listed in models.go) are assumed not to modify Miller's heap except through pointer arguments; results unconstrained unless modelled: " + pkgOfName(fname))
	// out-parameters: a library function may write through any pointer it is handed
	// (yaml Decode(&doc), json Unmarshal(&v), binary.Read(&x)); the scanning functions of fmt take
	// their pointers inside a variadic []any, which is not tracked: everything is havocked there
	if strings.HasPrefix(fname, "fmt.Sscan") || strings.HasPrefix(fname, "fmt.Fscan") || strings.HasPrefix(fname, "fmt.Scan") {
		// the scanners write basic values through pointers: every pointer-target component of a
		// non-struct type is havocked (struct fields, slices and maps are not reachable that way)
		for _, k := range sortedKeys(c.memSorts) {
			if strings.HasPrefix(k, "P:") {
				st.mem[k] = c.declConst("Hs_"+k, tr.memSortFull(k))
				f.noteWrite(k, b.Index)
			}
		}
		return f.freshResult(st, rt, name)
	}
	if fn != nil && fn.Signature != nil {
		np := fn.Signature.Params().Len()
		off := 0
		if fn.Signature.Recv() != nil {
			off = 1
		}
		for i, a := range args {
			if i < off || np == 0 {
				continue
			}
			pt := fn.Signature.Params().At(min(i-off, np-1)).Type()
			at := a.typ
			if at == nil {
				at = pt
			}
			if sl, isSl := at.Underlying().(*types.Slice); isSl {
				// destination buffers of the io.Reader family
				if strings.HasSuffix(fname, ".Read") || strings.HasSuffix(fname, ".ReadFull") || strings.HasSuffix(fname, ".ReadAtLeast") || strings.HasSuffix(fname, ".ReadAt") {
					f.havocElems(b, st, sl.Elem(), a)
				}
				continue
			}
			ptr, isPtr := at.Underlying().(*types.Pointer)
			if !isPtr {
				// a pointer wrapped into an interface parameter (Decode(&doc), Unmarshal(data, &v))
				if f.extCC != nil && i < len(f.extCC.Args) {
					if mi, ok := f.extCC.Args[i].(*ssa.MakeInterface); ok {
						if p2, ok := mi.X.Type().Underlying().(*types.Pointer); ok {
							f.havocTarget(b, st, f.val(mi.X), p2, 0)
						}
					}
				}
				continue
			}
			f.havocTarget(b, st, a, ptr, 0)
		}
	}
	// elements of slices passed to mutating helpers
	switch fname {
	case "sort.Slice", "sort.Sort", "sort.Stable", "sort.SliceStable", "sort.Strings", "sort.Ints", "slices.Sort", "slices.SortFunc", "slices.Reverse":
		f.havocAll(b, st, fname)
		return f.freshResult(st, rt, name)
	}
	if hasPrefixAny(fname, deterministicPrefixes) {
		ok := true
		var sorts []Sx
		var ts []Sx
		for i, a := range args {
			if a.t == "" || a.addr != nil || a.tup != nil {
				ok = false
				break
			}
			pt := fn.Signature.Params().At(min(i, fn.Signature.Params().Len()-1)).Type()
			if fn.Signature.Recv() != nil {
				ok = false
				break
			}
			if _, isSl := pt.Underlying().(*types.Slice); isSl {
				ok = false
				break
			}
			if _, isIf := pt.Underlying().(*types.Interface); isIf {
				ok = false
				break
			}
			sorts = append(sorts, c.sortOf(pt))
			ts = append(ts, a.t)
		}
		if ok && len(args) > 0 {
			mk := func(i int, t types.Type) Val {
				un := fmt.Sprintf("ext_%s_%d", sym(fname), i)
				c.declFun(un, sorts, c.sortOf(t))
				v := Val{t: c.define(name, c.sortOf(t), sx(un, ts...)), typ: t}
				if facts := tr.typeFacts(st, v); len(facts) > 0 {
					st.guard = and(append([]Sx{st.guard}, facts...)...)
				}
				return v
			}
			if tt, isT := rt.(*types.Tuple); isT {
				if tt.Len() == 0 {
					return Val{}
				}
				var tup []Val
				for i := 0; i < tt.Len(); i++ {
					tup = append(tup, mk(i, tt.At(i).Type()))
				}
				return Val{tup: tup}
			}
			return mk(0, rt)
		}
	}
	return f.freshResult(st, rt, name)
}

// havocTarget: the cell(s) a pointer argument of an external call points to get unconstrained values.
// Named struct types of other modules are opaque to Miller's code and skipped.
func (f *Frame) havocTarget(b *ssa.BasicBlock, st *State, p Val, ptr *types.Pointer, depth int) {
	tr := f.tr
	target := ptr.Elem()
	if nt, ok := target.(*types.Named); ok {
		if _, isStruct := nt.Underlying().(*types.Struct); isStruct {
			if nt.Obj().Pkg() == nil || !strings.HasPrefix(nt.Obj().Pkg().Path(), modPath) {
				return
			}
		}
	}
	a := tr.addrOf(p, ptr)
	f.havocAddr(b, st, a, depth)
}

func (f *Frame) havocAddr(b *ssa.BasicBlock, st *State, a *Addr, depth int) {
	if u, ok := a.typ.Underlying().(*types.Struct); ok {
		if depth > 3 {
			return
		}
		for i := 0; i < u.NumFields(); i++ {
			f.havocAddr(b, st, &Addr{key: a.key + "." + u.Field(i).Name(), idxs: a.idxs, typ: u.Field(i).Type()}, depth+1)
		}
		return
	}
	if _, ok := a.typ.Underlying().(*types.Array); ok {
		return
	}
	v := f.freshResult(st, a.typ, "ext_out")
	f.store(st, a, v, b.Index)
}

func pkgOfName(fname string) string {
	s := strings.TrimLeft(fname, "(*")
	if i := strings.LastIndex(s, "."); i >= 0 {
		s = s[:i]
	}
	if i := strings.Index(s, ")"); i >= 0 {
		s = s[:i]
	}
	if i := strings.LastIndex(s, "."); i >= 0 && strings.Contains(s[i:], ".") && !strings.Contains(s, "/") {
		return s[:i]
	}
	return s
}

func (tr *Translator) mathCall(name string, args []Val, rt types.Type) (Val, bool) {
	c := tr.c
	r := func(t Sx) (Val, bool) { return Val{t: t, typ: rt}, true }
	a := func(i int) Sx { return args[i].t }
	switch name {
	case "Abs":
		return r(sx("fp.abs", a(0)))
	case "Floor":
		return r(sx("fp.roundToIntegral", "RTN", a(0)))
	case "Ceil":
		return r(sx("fp.roundToIntegral", "RTP", a(0)))
	case "Trunc":
		return r(sx("fp.roundToIntegral", "RTZ", a(0)))
	case "Round":
		return r(sx("fp.roundToIntegral", "RNA", a(0)))
	case "RoundToEven":
		return r(sx("fp.roundToIntegral", "RNE", a(0)))
	case "Sqrt":
		return r(sx("fp.sqrt", "RNE", a(0)))
	case "IsNaN":
		return r(sx("fp.isNaN", a(0)))
	case "IsInf":
		sg := a(1)
		z := c.it.iconst(0)
		pinf, ninf := eq(a(0), "(_ +oo 11 53)"), eq(a(0), "(_ -oo 11 53)")
		return r(ite(c.it.lt(I64, z, sg), pinf, ite(c.it.lt(I64, sg, z), ninf, or(pinf, ninf))))
	case "Inf":
		return r(ite(c.it.le(I64, c.it.iconst(0), a(0)), "(_ +oo 11 53)", "(_ -oo 11 53)"))
	case "NaN":
		return r("(_ NaN 11 53)")
	case "Signbit":
		return r(sx("fp.isNegative", a(0)))
	case "Copysign":
		return r(ite(eq(sx("fp.isNegative", a(0)), sx("fp.isNegative", a(1))), a(0), sx("fp.neg", a(0))))
	case "Max", "Min":
		x, y := a(0), a(1)
		nan := or(sx("fp.isNaN", x), sx("fp.isNaN", y))
		bothZero := and(sx("fp.isZero", x), sx("fp.isZero", y))
		if name == "Max" {
			// Max(x,+Inf)=+Inf; Max(x,NaN)=NaN; Max(+0,±0)=+0; Max(-0,-0)=-0
			anyInf := or(eq(x, "(_ +oo 11 53)"), eq(y, "(_ +oo 11 53)"))
			return r(ite(anyInf, "(_ +oo 11 53)", ite(nan, "(_ NaN 11 53)", ite(bothZero, ite(and(sx("fp.isNegative", x), sx("fp.isNegative", y)), "(_ -zero 11 53)", "(_ +zero 11 53)"), ite(sx("fp.gt", x, y), x, y)))))
		}
		anyInf := or(eq(x, "(_ -oo 11 53)"), eq(y, "(_ -oo 11 53)"))
		return r(ite(anyInf, "(_ -oo 11 53)", ite(nan, "(_ NaN 11 53)", ite(bothZero, ite(or(sx("fp.isNegative", x), sx("fp.isNegative", y)), "(_ -zero 11 53)", "(_ +zero 11 53)"), ite(sx("fp.lt", x, y), x, y)))))
	}
	return Val{}, false
}

func (f *Frame) modelCall(b *ssa.BasicBlock, st *State, fn *ssa.Function, fname string, args []Val, rt types.Type, name string, instr ssa.Instruction) (Val, bool) {
	tr := f.tr
	c := tr.c
	it := c.it
	switch fname {
	case modPath + "/pkg/lib.InternalCodingErrorIf":
		if instr != nil {
			f.safetyObl(st, "icerr", not(args[0].t), instr)
		} else {
			st.guard = and(st.guard, not(args[0].t))
		}
		return Val{}, true
	case modPath + "/pkg/lib.InternalCodingErrorWithMessageIf":
		if instr != nil {
			f.safetyObl(st, "icerr", not(args[0].t), instr)
		}
		return Val{}, true
	case modPath + "/pkg/lib.InternalCodingErrorPanic":
		if instr != nil {
			f.safetyObl(st, "icerr", "false", instr)
		}
		st.guard = "false"
		return Val{}, true
	case "os.Exit", "log.Fatal", "log.Fatalf", "log.Fatalln", "runtime.Goexit":
		st.guard = "false"
		return f.zeroResult(rt), true
	case "errors.New", "fmt.Errorf":
		v := f.freshResult(st, rt, name)
		st.guard = and(st.guard, not(eq(v.t, "ifc_nil")))
		return v, true
	case "strings.HasPrefix":
		s, p := args[0].t, args[1].t
		c.declFun("ext_strings.HasPrefix_0", []Sx{"Str", "Str"}, "Bool")
		r := c.defineBool(name, sx("ext_strings.HasPrefix_0", s, p))
		// sound consequences: prefix implies length and byte agreement
		tr.c.fresh++
		k := fmt.Sprintf("k!hp%d", tr.c.fresh)
		c.axiom(r, imp(r, and(it.le(I64, sx("slen", p), sx("slen", s)),
			fmt.Sprintf("(forall ((%s %s)) (=> (and %s %s) (= (sat %s %s) (sat %s %s))))", k, it.isort(), it.le(I64, it.iconst(0), k), it.lt(I64, k, sx("slen", p)), s, k, p, k))))
		// and the converse for short literal prefixes (quantifier-free)
		if n, ok := tr.litLen(p); ok && n <= 8 {
			var eqs []Sx
			eqs = append(eqs, it.le(I64, it.iconst(int64(n)), sx("slen", s)))
			for i := 0; i < n; i++ {
				eqs = append(eqs, eq(sx("sat", s, it.iconst(int64(i))), sx("sat", p, it.iconst(int64(i)))))
			}
			c.axiom(r, eq(r, and(eqs...)))
		}
		return Val{t: r, typ: rt}, true
	case "strings.Join":
		// exact for zero and one element; otherwise an uninterpreted (deterministic) result
		{
			ek := "E:string"
			tr.regKey(ek, []Sx{"Int", it.isort()}, "Str")
			c.declFun("ext_strings.Join_0", []Sx{"Slice", "Str", "Str"}, "Str")
			sl := args[0].t
			first := sx("select", sx("select", tr.memGet(st, ek), sx("sl_arr", sl)), sx("sl_off", sl))
			r := c.define(name, "Str", ite(eq(sx("sl_len", sl), it.iconst(0)), c.strLit(""), ite(eq(sx("sl_len", sl), it.iconst(1)), first, sx("ext_strings.Join_0", sl, args[1].t, first))))
			v := Val{t: r, typ: rt}
			st.guard = and(append([]Sx{st.guard}, tr.typeFacts(st, v)...)...)
			c.note("strings.Join modelled exactly for slices of zero and one element")
			return v, true
		}
	case "strings.Compare":
		// -1, 0, +1 by the same (uninterpreted, strict) string order the comparison operators use
		c.declFun("str_lt", []Sx{"Str", "Str"}, "Bool")
		c.note("string ordering is an uninterpreted strict order (str_lt)")
		r := c.define(name, it.isort(), ite(sx("str_lt", args[0].t, args[1].t), it.iconst(-1), ite(sx("str_lt", args[1].t, args[0].t), it.iconst(1), it.iconst(0))))
		return Val{t: r, typ: rt}, true
	case "(*regexp.Regexp).FindAllStringSubmatchIndex":
		// Shape of the result (package documentation): one row per match, in increasing,
		// non-overlapping order; a row holds pairs (start, end): pair 0 is the whole match with
		// 0 <= start <= end <= len(input); every later pair is (-1, -1) for a group that did not
		// participate or lies inside [0, len(input)] with start <= end.
		{
			ekS, ekI := "E:[]int", "E:int"
			tr.regKey(ekS, []Sx{"Int", it.isort()}, "Slice")
			tr.regKey(ekI, []Sx{"Int", it.isort()}, c.sortOf(types.Typ[types.Int]))
			m := f.freshResult(st, rt, "rxmatrix")
			ES, EI := tr.memGet(st, ekS), tr.memGet(st, ekI)
			n := sx("slen", args[1].t)
			row := func(j Sx) Sx { return sx("select", sx("select", ES, sx("sl_arr", m.t)), j) }
			at := func(r, t Sx) Sx { return sx("select", sx("select", EI, sx("sl_arr", r)), t) }
			inRows := func(j Sx) Sx {
				return and(it.le(I64, sx("sl_off", m.t), j), it.lt(I64, j, it.addNW(sx("sl_off", m.t), sx("sl_len", m.t))))
			}
			r := row("j")
			wf := and(it.le(I64, it.iconst(0), sx("sl_off", r)), it.le(I64, it.iconst(2), sx("sl_len", r)), it.le(I64, sx("sl_len", r), sx("sl_cap", r)),
				it.le(I64, sx("sl_cap", r), it.iconst(1<<40)), it.le(I64, sx("sl_off", r), it.iconst(1<<40)),
				sx("<", "0", sx("sl_arr", r)), sx("<", sx("sl_arr", r), tr.allocTerm(st)),
				eq(sx("mod", sx("sl_len", r), "2"), "0"),
				it.le(I64, it.iconst(0), at(r, sx("sl_off", r))), it.le(I64, at(r, sx("sl_off", r)), at(r, it.addNW(sx("sl_off", r), it.iconst(1)))),
				it.le(I64, at(r, it.addNW(sx("sl_off", r), it.iconst(1))), n))
			if it.mode == ModeInt {
				c.axiom(m.t, fmt.Sprintf("(forall ((j Int)) (! (=> %s %s) :pattern (%s)))", inRows("j"), wf, r))
				pairOK := or(and(eq(at(r, "t"), it.iconst(-1)), eq(at(r, it.addNW("t", it.iconst(1))), it.iconst(-1))),
					and(it.le(I64, it.iconst(0), at(r, "t")), it.le(I64, at(r, "t"), at(r, it.addNW("t", it.iconst(1)))), it.le(I64, at(r, it.addNW("t", it.iconst(1))), n)))
				inRow := and(it.le(I64, sx("sl_off", r), "t"), it.lt(I64, "t", it.addNW(sx("sl_off", r), sx("sl_len", r))), eq(sx("mod", sx("-", "t", sx("sl_off", r)), "2"), "0"))
				c.axiom(m.t, fmt.Sprintf("(forall ((j Int) (t Int)) (! (=> (and %s %s) %s) :pattern (%s)))", inRows("j"), inRow, pairOK, at(r, "t")))
				prev := row(sx("-", "j", "1"))
				c.axiom(m.t, fmt.Sprintf("(forall ((j Int)) (! (=> (and %s %s) %s) :pattern (%s)))", inRows("j"), it.lt(I64, sx("sl_off", m.t), "j"),
					it.le(I64, at(prev, it.addNW(sx("sl_off", prev), it.iconst(1))), at(r, sx("sl_off", r))), r))
				c.note("regexp.FindAllStringSubmatchIndex: shape of the result as documented (rows of (start,end) pairs inside the input, matches in increasing non-overlapping order) is assumed (trusted model of package regexp)")
			}
			return m, true
		}
	case "(*bufio.Reader).ReadString":
		// (piece, err): err == nil iff piece ends in the delimiter (package documentation); the
		// ghost counter X:consumed of the reader grows by len(piece)
		key := "X:consumed"
		tr.regKey(key, []Sx{"Int"}, it.isort())
		sv := f.freshResult(st, types.Typ[types.String], "piece")
		ev := c.declConst("rderr", "Iface")
		n := sx("slen", sv.t)
		B8 := intKind{8, false}
		endsDelim := and(it.le(I64, it.iconst(1), n), eq(sx("select", sx("sbytes", sv.t), it.subNW(n, it.iconst(1))), it.conv(B8, B8, args[1].t)))
		st.guard = and(st.guard, eq(eq(ev, "ifc_nil"), endsDelim))
		// the delimiter occurs nowhere before the last byte
		c.axiom(sv.t, fmt.Sprintf("(forall ((k %s)) (! (=> (and %s %s) (not %s)) :pattern ((select (sbytes %s) k))))", it.isort(),
			it.le(I64, it.iconst(0), "k"), it.lt(I64, "k", it.subNW(n, it.iconst(1))), eq(sx("select", sx("sbytes", sv.t), "k"), it.conv(B8, B8, args[1].t)), sv.t))
		old := tr.memGet(st, key)
		st.mem[key] = c.define("H_"+key, tr.memSortFull(key), sx("store", old, args[0].t, it.addNW(sx("select", old, args[0].t), n)))
		f.noteWrite(key, b.Index)
		c.note("bufio.Reader.ReadString modelled: err == nil iff the piece ends in the delimiter; ghost counter 'consumed' of the reader grows by the length of the piece")
		if tt, ok := rt.(*types.Tuple); ok && tt.Len() == 2 {
			return Val{tup: []Val{{t: sv.t, typ: tt.At(0).Type()}, {t: ev, typ: tt.At(1).Type()}}}, true
		}
		return Val{}, false
	case "fmt.Sprintf":
		// Only what follows from the format literal: a lower bound on the length (literal bytes
		// plus explicit widths), the literal prefix, and -- when the format has only printable
		// ASCII literals and integer verbs (%d %x %X %o %b, optional 0 flag and width) -- that
		// every byte of the result is printable ASCII.
		lit, ok := tr.litStr(args[0].t)
		if !ok || !isASCII(lit) {
			return Val{}, false
		}
		minLen, prefix, intOnly, okf := sprintfShape(lit)
		if !okf {
			return Val{}, false
		}
		r := c.declConst("sprintf", "Str")
		facts := []Sx{it.le(I64, it.iconst(int64(minLen)), sx("slen", r)), it.le(I64, sx("slen", r), it.iconst(1<<40))}
		for i := 0; i < len(prefix) && i < 16; i++ {
			facts = append(facts, eq(sx("select", sx("sbytes", r), it.iconst(int64(i))), it.konst(intKind{8, false}, bigInt(int64(prefix[i])))))
		}
		c.axiom(r, and(facts...))
		if intOnly {
			B8 := intKind{8, false}
			c.axiom(r, fmt.Sprintf("(forall ((k %s)) (! (=> (and %s %s) (and %s %s)) :pattern ((select (sbytes %s) k))))", it.isort(),
				it.le(I64, it.iconst(0), "k"), it.lt(I64, "k", sx("slen", r)),
				it.le(B8, it.konst(B8, bigInt(0x20)), sx("select", sx("sbytes", r), "k")), it.lt(B8, sx("select", sx("sbytes", r), "k"), it.konst(B8, bigInt(0x7f))), r))
		}
		c.note("fmt.Sprintf with a literal format: result length at least the literal bytes plus explicit widths, literal prefix exact, integer-only formats give printable ASCII (trusted model of package fmt)")
		return Val{t: r, typ: rt}, true
	case "strings.IndexAny", "strings.ContainsAny", "strings.IndexByte":
		// exact for a literal ASCII character set of at most 8 characters (or a byte operand)
		s := args[0].t
		var special func(cell Sx) Sx
		B8 := intKind{8, false}
		if fname == "strings.IndexByte" {
			special = func(cell Sx) Sx { return eq(cell, args[1].t) }
		} else if lit, ok := tr.litStr(args[1].t); ok && len(lit) >= 1 && len(lit) <= 8 && isASCII(lit) {
			special = func(cell Sx) Sx {
				var alts []Sx
				for i := 0; i < len(lit); i++ {
					alts = append(alts, eq(cell, it.konst(B8, bigInt(int64(lit[i])))))
				}
				return or(alts...)
			}
		} else {
			return Val{}, false
		}
		j := c.declConst("idx", it.isort())
		n := sx("slen", s)
		tr.c.fresh++
		k := fmt.Sprintf("k!ia%d", tr.c.fresh)
		first := ite(it.lt(I64, j, it.iconst(0)), n, j)
		c.axiom(j, and(it.le(I64, it.iconst(-1), j), it.lt(I64, j, n),
			imp(it.le(I64, it.iconst(0), j), special(sx("select", sx("sbytes", s), j)))))
		c.axiom(j, fmt.Sprintf("(forall ((%s %s)) (! (=> (and %s %s) (not %s)) :pattern ((select (sbytes %s) %s))))", k, it.isort(),
			it.le(I64, it.iconst(0), k), it.lt(I64, k, first), special(sx("select", sx("sbytes", s), k)), s, k))
		c.note("strings.IndexAny / ContainsAny / IndexByte modelled exactly (least index of a byte in the literal ASCII set)")
		if fname == "strings.ContainsAny" {
			return Val{t: c.defineBool(name, it.le(I64, it.iconst(0), j)), typ: rt}, true
		}
		return Val{t: j, typ: rt}, true
	case "strings.HasSuffix":
		s, p := args[0].t, args[1].t
		c.declFun("ext_strings.HasSuffix_0", []Sx{"Str", "Str"}, "Bool")
		r := c.defineBool(name, sx("ext_strings.HasSuffix_0", s, p))
		c.axiom(r, imp(r, it.le(I64, sx("slen", p), sx("slen", s))))
		if n, ok := tr.litLen(p); ok && n <= 8 {
			var eqs []Sx
			eqs = append(eqs, it.le(I64, it.iconst(int64(n)), sx("slen", s)))
			for i := 0; i < n; i++ {
				eqs = append(eqs, eq(sx("sat", s, it.add(I64, it.sub(I64, sx("slen", s), it.iconst(int64(n))), it.iconst(int64(i)))), sx("sat", p, it.iconst(int64(i)))))
			}
			c.axiom(r, eq(r, and(eqs...)))
		}
		return Val{t: r, typ: rt}, true
	case "(*bytes.Buffer).WriteByte", "(*strings.Builder).WriteByte", "(*bufio.Writer).WriteByte":
		ln, data := tr.bufKeys()
		l0 := sx("select", tr.memGet(st, ln), args[0].t)
		d0 := tr.memGet(st, data)
		st.mem[data] = c.define("H_"+data, tr.memSortFull(data), sx("store", d0, args[0].t, sx("store", sx("select", d0, args[0].t), l0, args[1].t)))
		st.mem[ln] = c.define("H_"+ln, tr.memSortFull(ln), sx("store", tr.memGet(st, ln), args[0].t, it.addNW(l0, it.iconst(1))))
		f.noteWrite(data, b.Index)
		f.noteWrite(ln, b.Index)
		c.note("bytes.Buffer / strings.Builder modelled by ghost content (length and byte array); WriteByte/WriteString/String/Len exact, WriteRune exact for ASCII")
		return Val{t: f.bufErr(fname), typ: rt}, true
	case "(*bytes.Buffer).WriteString", "(*strings.Builder).WriteString", "(*bufio.Writer).WriteString":
		ln, data := tr.bufKeys()
		l0 := c.define("bl", it.isort(), sx("select", tr.memGet(st, ln), args[0].t))
		d0 := tr.memGet(st, data)
		old := sx("select", d0, args[0].t)
		if lit, ok := tr.litStr(args[1].t); ok && len(lit) <= 8 {
			// a short literal: explicit stores, no quantifier
			arr := old
			for i := 0; i < len(lit); i++ {
				arr = sx("store", arr, it.addNW(l0, it.iconst(int64(i))), it.konst(intKind{8, false}, bigInt(int64(lit[i]))))
			}
			st.mem[data] = c.define("H_"+data, tr.memSortFull(data), sx("store", d0, args[0].t, arr))
			st.mem[ln] = c.define("H_"+ln, tr.memSortFull(ln), sx("store", tr.memGet(st, ln), args[0].t, it.addNW(l0, it.iconst(int64(len(lit))))))
			f.noteWrite(data, b.Index)
			f.noteWrite(ln, b.Index)
			if tt, ok := rt.(*types.Tuple); ok && tt.Len() == 2 {
				return Val{tup: []Val{{t: it.iconst(int64(len(lit))), typ: tt.At(0).Type()}, {t: f.bufErr(fname), typ: tt.At(1).Type()}}}, true
			}
			return Val{}, true
		}
		na := c.declConst("Abuf", sx("Array", it.isort(), it.sort(intKind{8, false})))
		sl := sx("slen", args[1].t)
		c.softAxiom(na, fmt.Sprintf("(forall ((k %s)) (! (= (select %s k) (ite (and %s %s) (select (sbytes %s) %s) (select %s k))) :pattern ((select %s k))))",
			it.isort(), na, it.le(I64, l0, "k"), it.lt(I64, "k", it.addNW(l0, sl)), args[1].t, it.subNW("k", l0), old, na))
		st.mem[data] = c.define("H_"+data, tr.memSortFull(data), sx("store", d0, args[0].t, na))
		st.mem[ln] = c.define("H_"+ln, tr.memSortFull(ln), sx("store", tr.memGet(st, ln), args[0].t, it.addNW(l0, sl)))
		f.noteWrite(data, b.Index)
		f.noteWrite(ln, b.Index)
		if tt, ok := rt.(*types.Tuple); ok && tt.Len() == 2 {
			return Val{tup: []Val{{t: sl, typ: tt.At(0).Type()}, {t: f.bufErr(fname), typ: tt.At(1).Type()}}}, true
		}
		return Val{}, true
	case "(*bytes.Buffer).WriteRune", "(*strings.Builder).WriteRune", "(*bufio.Writer).WriteRune":
		// ASCII exact; other runes: 1..4 unspecified bytes >= 0x80
		ln, data := tr.bufKeys()
		l0 := c.define("bl", it.isort(), sx("select", tr.memGet(st, ln), args[0].t))
		d0 := tr.memGet(st, data)
		old := sx("select", d0, args[0].t)
		R := intKind{32, true}
		B8 := intKind{8, false}
		ascii := and(it.le(R, it.konst(R, bigInt(0)), args[1].t), it.lt(R, args[1].t, it.konst(R, bigInt(0x80))))
		w := c.declConst("rw", it.isort())
		na := c.declConst("Abuf", sx("Array", it.isort(), it.sort(B8)))
		st.guard = and(st.guard, it.le(I64, it.iconst(1), w), it.le(I64, w, it.iconst(4)), imp(ascii, eq(w, it.iconst(1))))
		c.softAxiom(na, fmt.Sprintf("(forall ((k %s)) (! (and (=> (or %s %s) (= (select %s k) (select %s k))) (=> (and %s %s (not %s)) %s)) :pattern ((select %s k))))",
			it.isort(), it.lt(I64, "k", l0), it.le(I64, it.addNW(l0, w), "k"), na, old,
			it.le(I64, l0, "k"), it.lt(I64, "k", it.addNW(l0, w)), ascii, it.le(B8, it.konst(B8, bigInt(0x80)), sx("select", na, "k")), na))
		c.axiom(na, imp(ascii, eq(sx("select", na, l0), it.conv(R, B8, args[1].t))))
		st.mem[data] = c.define("H_"+data, tr.memSortFull(data), sx("store", d0, args[0].t, na))
		st.mem[ln] = c.define("H_"+ln, tr.memSortFull(ln), sx("store", tr.memGet(st, ln), args[0].t, it.addNW(l0, w)))
		f.noteWrite(data, b.Index)
		f.noteWrite(ln, b.Index)
		if tt, ok := rt.(*types.Tuple); ok && tt.Len() == 2 {
			return Val{tup: []Val{{t: w, typ: tt.At(0).Type()}, {t: f.bufErr(fname), typ: tt.At(1).Type()}}}, true
		}
		return Val{}, true
	case "(*bytes.Buffer).String", "(*strings.Builder).String":
		ln, data := tr.bufKeys()
		s := c.declConst("bufstr", "Str")
		c.axiom(s, and(eq(sx("slen", s), sx("select", tr.memGet(st, ln), args[0].t)), eq(sx("sbytes", s), sx("select", tr.memGet(st, data), args[0].t))))
		return Val{t: s, typ: rt}, true
	case "(*bytes.Buffer).Len", "(*strings.Builder).Len":
		ln, _ := tr.bufKeys()
		return Val{t: sx("select", tr.memGet(st, ln), args[0].t), typ: rt}, true
	case "unicode/utf8.RuneCountInString":
		c.declFun("utf8_count", []Sx{"Str"}, it.isort())
		v := Val{t: c.define(name, it.isort(), sx("utf8_count", args[0].t)), typ: rt}
		st.guard = and(st.guard, it.le(I64, it.iconst(0), v.t), it.le(I64, v.t, sx("slen", args[0].t)),
			imp(it.lt(I64, it.iconst(0), sx("slen", args[0].t)), it.lt(I64, it.iconst(0), v.t)))
		c.note("utf8.RuneCountInString: 0 <= count <= len, count > 0 iff len > 0 (assumed)")
		return v, true
	}
	if strings.HasPrefix(fname, "math.") && fn.Pkg != nil && fn.Pkg.Pkg.Path() == "math" {
		if v, ok := tr.mathCall(fn.Name(), args, rt); ok {
			if strings.ContainsAny(v.t, " (") {
				v.t = c.define(name, c.sortOf(rt), v.t)
			}
			return v, true
		}
	}
	return Val{}, false
}

// bufErr: in-memory buffers never fail; a bufio.Writer may report the (sticky) error of the
// underlying stream, in which case the ghost content is what would have been written
func (f *Frame) bufErr(fname string) Sx {
	if !strings.HasPrefix(fname, "(*bufio.Writer)") {
		return "ifc_nil"
	}
	f.tr.c.note("bufio.Writer modelled by the ghost sequence of all bytes handed to it; every write may return a non-nil error (contracts speak about the error-free case)")
	return f.tr.c.declConst("werr", "Iface")
}

// litStr: if term is a string literal constant, its text
func (tr *Translator) litStr(t Sx) (string, bool) {
	for s, n := range tr.c.strLits {
		if n == t {
			return s, true
		}
	}
	return "", false
}

// ghost content of bytes.Buffer / strings.Builder objects
func (tr *Translator) bufKeys() (ln, data string) {
	c := tr.c
	ln, data = "XB:len", "XB:data"
	tr.regKey(ln, []Sx{"Int"}, c.it.isort())
	tr.regKey(data, []Sx{"Int", c.it.isort()}, c.it.sort(intKind{8, false}))
	return
}

// sprintfShape parses a printf format: minimal output length, literal prefix before the first
// verb, whether all verbs are plain integer verbs and all literals printable; ok=false if the
// format uses anything this parser does not know (*, indexes, ...).
func sprintfShape(f string) (minLen int, prefix string, intOnly bool, ok bool) {
	intOnly = true
	seenVerb := false
	for i := 0; i < len(f); i++ {
		ch := f[i]
		if ch != '%' {
			minLen++
			if !seenVerb {
				prefix += string(ch)
			}
			if ch < 0x20 || ch >= 0x7f {
				intOnly = false
			}
			continue
		}
		i++
		if i >= len(f) {
			return 0, "", false, false
		}
		if f[i] == '%' {
			minLen++
			if !seenVerb {
				prefix += "%"
			}
			continue
		}
		seenVerb = true
		plainFlags := true
		for i < len(f) && strings.IndexByte("+-# 0", f[i]) >= 0 {
			if f[i] != '0' {
				plainFlags = false
			}
			i++
		}
		width := 0
		for i < len(f) && f[i] >= '0' && f[i] <= '9' {
			width = width*10 + int(f[i]-'0')
			i++
		}
		if i < len(f) && f[i] == '.' {
			i++
			plainFlags = false
			for i < len(f) && f[i] >= '0' && f[i] <= '9' {
				i++
			}
		}
		if i >= len(f) || f[i] == '*' || f[i] == '[' {
			return 0, "", false, false
		}
		if width > 1<<20 {
			return 0, "", false, false
		}
		minLen += width
		switch f[i] {
		case 'd', 'x', 'X', 'o', 'b':
			if !plainFlags {
				intOnly = false
			}
		default:
			intOnly = false
		}
	}
	return minLen, prefix, intOnly, true
}

func isASCII(s string) bool {
	for i := 0; i < len(s); i++ {
		if s[i] >= 0x80 {
			return false
		}
	}
	return true
}

// litLen: if term is a string literal constant, its length
func (tr *Translator) litLen(t Sx) (int, bool) {
	for s, n := range tr.c.strLits {
		if n == t {
			return len(s), true
		}
	}
	return 0, false
}

var _ = ssa.NaiveForm
