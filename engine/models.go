package main

import (
	"fmt"
	"go/types"
	"strings"

	"golang.org/x/tools/go/ssa"
)

// ---------------------------------------------------------------------------------------------
// Engine models of well-known functions, and the policy for external (non-repo) calls.
// Everything assumed here is listed in the trusted base of the evidence.
// ---------------------------------------------------------------------------------------------

var heapNeutralPrefixes = []string{
	"strings.", "strconv.", "unicode.", "unicode/utf8.", "math.", "math/bits.", "bytes.", "errors.", "fmt.",
	"time.", "path.", "path/filepath.", "os.Getenv", "os.Stat", "os.Lstat", "os.Getpid", "(*regexp.Regexp).", "regexp.", "encoding/hex.", "encoding/base64.",
	"(*encoding/base64.Encoding).", "(encoding/base64.Encoding).", "crypto/", "hash/", "(time.Time).", "(*time.Location).", "(time.Duration).", "(time.Month).", "(time.Weekday).",
	"os.IsNotExist", "os.Remove", "os.Rename", "os.Chmod", "os.CreateTemp", "os.Open", "os.OpenFile", "os.Create", "(*os.File).", "(os.FileMode).", "io.", "(*bufio.Writer).", "(*bufio.Reader).", "bufio.",
	"github.com/mattn/go-isatty.", "github.com/lestrrat-go/strftime.", "(*github.com/lestrrat-go/strftime.", "github.com/facette/natsort.", "github.com/nine-lives-later/go-windows-terminal-sequences.",
	"unicode/utf16.", "slices.", "maps.", "(*strings.Builder).", "(*bytes.Buffer).", "(*strings.Reader).", "(*strings.Replacer).", "(*sync.", "sync.", "sync/atomic.", "os.Environ", "os.Setenv", "os.Unsetenv", "os.Hostname", "os.Getwd",
	"os/exec.", "(*os/exec.Cmd).", "runtime.", "(*math/rand.Rand).", "math/rand.", "golang.org/x/text/", "(*golang.org/x/text/", "golang.org/x/term.", "golang.org/x/sys/",
	"(reflect.", "reflect.", "compress/", "(*compress/", "(*github.com/klauspost/compress/", "github.com/klauspost/compress/", "container/list.", "(*container/list.", "internal/", "encoding/json.", "(*encoding/json.", "(*github.com/johnkerl/lumin",
	"github.com/johnkerl/lumin", "github.com/pkg/profile.", "os/signal.", "os.Exit", "log.", "syscall.", "os.Pipe", "os.StartProcess", "(*os.Process).", "os.Executable", "os.ReadFile", "os.WriteFile", "os.ReadDir", "os.MkdirAll", "os.Mkdir", "os.UserHomeDir",
	"gopkg.in/yaml.v3.", "(*gopkg.in/yaml.v3.", "github.com/johnkerl/pgpg", "(*github.com/johnkerl/pgpg", "errors.Is", "errors.As", "unsafe.", "os.Args", "hash.", "os.TempDir", "(os.", "os.",
}

// functions whose result is a deterministic function of their (value) arguments
var deterministicPrefixes = []string{"strings.", "strconv.", "unicode.", "unicode/utf8.", "math.", "math/bits.", "bytes.", "path.", "path/filepath.", "encoding/hex.", "fmt.Sprint", "github.com/facette/natsort."}

func hasPrefixAny(s string, ps []string) bool {
	for _, p := range ps {
		if strings.HasPrefix(s, p) {
			return true
		}
	}
	return false
}

func (f *Frame) externalCall(b *ssa.BasicBlock, st *State, fn *ssa.Function, fname string, args []Val, rt types.Type, name string) Val {
	tr := f.tr
	c := tr.c
	neutral := hasPrefixAny(fname, heapNeutralPrefixes)
	if !neutral {
		c.note(fmt.Sprintf("external call %s: unknown effect, heap havocked", fname))
		f.havocAll(b, st, "external "+fname)
		return f.freshResult(st, rt, name)
	}
	c.note("external library calls (stdlib and third-party listed in models.go) are assumed not to modify Miller's heap; results unconstrained unless modelled: " + pkgOfName(fname))
	// elements of slices passed to mutating helpers
	switch fname {
	case "sort.Slice", "sort.Sort", "sort.Stable", "sort.SliceStable", "sort.Strings", "sort.Ints", "slices.Sort", "slices.SortFunc", "slices.Reverse":
		f.havocAll(b, st, fname)
		return f.freshResult(st, rt, name)
	}
	if hasPrefixAny(fname, deterministicPrefixes) {
		ok := true
		var sorts []Sx
		var ts []Sx
		for i, a := range args {
			if a.t == "" || a.addr != nil || a.tup != nil {
				ok = false
				break
			}
			pt := fn.Signature.Params().At(min(i, fn.Signature.Params().Len()-1)).Type()
			if fn.Signature.Recv() != nil {
				ok = false
				break
			}
			if _, isSl := pt.Underlying().(*types.Slice); isSl {
				ok = false
				break
			}
			if _, isIf := pt.Underlying().(*types.Interface); isIf {
				ok = false
				break
			}
			sorts = append(sorts, c.sortOf(pt))
			ts = append(ts, a.t)
		}
		if ok && len(args) > 0 {
			mk := func(i int, t types.Type) Val {
				un := fmt.Sprintf("ext_%s_%d", sym(fname), i)
				c.declFun(un, sorts, c.sortOf(t))
				v := Val{t: c.define(name, c.sortOf(t), sx(un, ts...)), typ: t}
				if facts := tr.typeFacts(st, v); len(facts) > 0 {
					st.guard = and(append([]Sx{st.guard}, facts...)...)
				}
				return v
			}
			if tt, isT := rt.(*types.Tuple); isT {
				if tt.Len() == 0 {
					return Val{}
				}
				var tup []Val
				for i := 0; i < tt.Len(); i++ {
					tup = append(tup, mk(i, tt.At(i).Type()))
				}
				return Val{tup: tup}
			}
			return mk(0, rt)
		}
	}
	return f.freshResult(st, rt, name)
}

func pkgOfName(fname string) string {
	s := strings.TrimLeft(fname, "(*")
	if i := strings.LastIndex(s, "."); i >= 0 {
		s = s[:i]
	}
	if i := strings.Index(s, ")"); i >= 0 {
		s = s[:i]
	}
	if i := strings.LastIndex(s, "."); i >= 0 && strings.Contains(s[i:], ".") && !strings.Contains(s, "/") {
		return s[:i]
	}
	return s
}

func (tr *Translator) mathCall(name string, args []Val, rt types.Type) (Val, bool) {
	c := tr.c
	r := func(t Sx) (Val, bool) { return Val{t: t, typ: rt}, true }
	a := func(i int) Sx { return args[i].t }
	switch name {
	case "Abs":
		return r(sx("fp.abs", a(0)))
	case "Floor":
		return r(sx("fp.roundToIntegral", "RTN", a(0)))
	case "Ceil":
		return r(sx("fp.roundToIntegral", "RTP", a(0)))
	case "Trunc":
		return r(sx("fp.roundToIntegral", "RTZ", a(0)))
	case "Round":
		return r(sx("fp.roundToIntegral", "RNA", a(0)))
	case "RoundToEven":
		return r(sx("fp.roundToIntegral", "RNE", a(0)))
	case "Sqrt":
		return r(sx("fp.sqrt", "RNE", a(0)))
	case "IsNaN":
		return r(sx("fp.isNaN", a(0)))
	case "IsInf":
		sg := a(1)
		z := c.it.iconst(0)
		pinf, ninf := eq(a(0), "(_ +oo 11 53)"), eq(a(0), "(_ -oo 11 53)")
		return r(ite(c.it.lt(I64, z, sg), pinf, ite(c.it.lt(I64, sg, z), ninf, or(pinf, ninf))))
	case "Inf":
		return r(ite(c.it.le(I64, c.it.iconst(0), a(0)), "(_ +oo 11 53)", "(_ -oo 11 53)"))
	case "NaN":
		return r("(_ NaN 11 53)")
	case "Signbit":
		return r(sx("fp.isNegative", a(0)))
	case "Copysign":
		return r(ite(eq(sx("fp.isNegative", a(0)), sx("fp.isNegative", a(1))), a(0), sx("fp.neg", a(0))))
	case "Max", "Min":
		x, y := a(0), a(1)
		nan := or(sx("fp.isNaN", x), sx("fp.isNaN", y))
		bothZero := and(sx("fp.isZero", x), sx("fp.isZero", y))
		if name == "Max" {
			// Max(x,+Inf)=+Inf; Max(x,NaN)=NaN; Max(+0,±0)=+0; Max(-0,-0)=-0
			anyInf := or(eq(x, "(_ +oo 11 53)"), eq(y, "(_ +oo 11 53)"))
			return r(ite(anyInf, "(_ +oo 11 53)", ite(nan, "(_ NaN 11 53)", ite(bothZero, ite(and(sx("fp.isNegative", x), sx("fp.isNegative", y)), "(_ -zero 11 53)", "(_ +zero 11 53)"), ite(sx("fp.gt", x, y), x, y)))))
		}
		anyInf := or(eq(x, "(_ -oo 11 53)"), eq(y, "(_ -oo 11 53)"))
		return r(ite(anyInf, "(_ -oo 11 53)", ite(nan, "(_ NaN 11 53)", ite(bothZero, ite(or(sx("fp.isNegative", x), sx("fp.isNegative", y)), "(_ -zero 11 53)", "(_ +zero 11 53)"), ite(sx("fp.lt", x, y), x, y)))))
	}
	return Val{}, false
}

func (f *Frame) modelCall(b *ssa.BasicBlock, st *State, fn *ssa.Function, fname string, args []Val, rt types.Type, name string, instr ssa.Instruction) (Val, bool) {
	tr := f.tr
	c := tr.c
	it := c.it
	switch fname {
	case modPath + "/pkg/lib.InternalCodingErrorIf":
		if instr != nil {
			f.safetyObl(st, "icerr", not(args[0].t), instr)
		} else {
			st.guard = and(st.guard, not(args[0].t))
		}
		return Val{}, true
	case modPath + "/pkg/lib.InternalCodingErrorWithMessageIf":
		if instr != nil {
			f.safetyObl(st, "icerr", not(args[0].t), instr)
		}
		return Val{}, true
	case modPath + "/pkg/lib.InternalCodingErrorPanic":
		if instr != nil {
			f.safetyObl(st, "icerr", "false", instr)
		}
		st.guard = "false"
		return Val{}, true
	case "os.Exit", "log.Fatal", "log.Fatalf", "log.Fatalln", "runtime.Goexit":
		st.guard = "false"
		return f.zeroResult(rt), true
	case "errors.New", "fmt.Errorf":
		v := f.freshResult(st, rt, name)
		st.guard = and(st.guard, not(eq(v.t, "ifc_nil")))
		return v, true
	case "strings.HasPrefix":
		s, p := args[0].t, args[1].t
		c.declFun("ext_strings.HasPrefix_0", []Sx{"Str", "Str"}, "Bool")
		r := c.defineBool(name, sx("ext_strings.HasPrefix_0", s, p))
		// sound consequences: prefix implies length and byte agreement
		tr.c.fresh++
		k := fmt.Sprintf("k!hp%d", tr.c.fresh)
		c.axiom(r, imp(r, and(it.le(I64, sx("slen", p), sx("slen", s)),
			fmt.Sprintf("(forall ((%s %s)) (=> (and %s %s) (= (sat %s %s) (sat %s %s))))", k, it.isort(), it.le(I64, it.iconst(0), k), it.lt(I64, k, sx("slen", p)), s, k, p, k))))
		// and the converse for short literal prefixes (quantifier-free)
		if n, ok := tr.litLen(p); ok && n <= 8 {
			var eqs []Sx
			eqs = append(eqs, it.le(I64, it.iconst(int64(n)), sx("slen", s)))
			for i := 0; i < n; i++ {
				eqs = append(eqs, eq(sx("sat", s, it.iconst(int64(i))), sx("sat", p, it.iconst(int64(i)))))
			}
			c.axiom(r, eq(r, and(eqs...)))
		}
		return Val{t: r, typ: rt}, true
	case "strings.HasSuffix":
		s, p := args[0].t, args[1].t
		c.declFun("ext_strings.HasSuffix_0", []Sx{"Str", "Str"}, "Bool")
		r := c.defineBool(name, sx("ext_strings.HasSuffix_0", s, p))
		c.axiom(r, imp(r, it.le(I64, sx("slen", p), sx("slen", s))))
		if n, ok := tr.litLen(p); ok && n <= 8 {
			var eqs []Sx
			eqs = append(eqs, it.le(I64, it.iconst(int64(n)), sx("slen", s)))
			for i := 0; i < n; i++ {
				eqs = append(eqs, eq(sx("sat", s, it.add(I64, it.sub(I64, sx("slen", s), it.iconst(int64(n))), it.iconst(int64(i)))), sx("sat", p, it.iconst(int64(i)))))
			}
			c.axiom(r, eq(r, and(eqs...)))
		}
		return Val{t: r, typ: rt}, true
	case "(*bytes.Buffer).WriteByte", "(*strings.Builder).WriteByte":
		ln, data := tr.bufKeys()
		l0 := sx("select", tr.memGet(st, ln), args[0].t)
		d0 := tr.memGet(st, data)
		st.mem[data] = c.define("H_"+data, tr.memSortFull(data), sx("store", d0, args[0].t, sx("store", sx("select", d0, args[0].t), l0, args[1].t)))
		st.mem[ln] = c.define("H_"+ln, tr.memSortFull(ln), sx("store", tr.memGet(st, ln), args[0].t, it.addNW(l0, it.iconst(1))))
		f.noteWrite(data, b.Index)
		f.noteWrite(ln, b.Index)
		c.note("bytes.Buffer / strings.Builder modelled by ghost content (length and byte array); WriteByte/WriteString/String/Len exact, WriteRune exact for ASCII")
		return Val{t: "ifc_nil", typ: rt}, true
	case "(*bytes.Buffer).WriteString", "(*strings.Builder).WriteString":
		ln, data := tr.bufKeys()
		l0 := c.define("bl", it.isort(), sx("select", tr.memGet(st, ln), args[0].t))
		d0 := tr.memGet(st, data)
		old := sx("select", d0, args[0].t)
		na := c.declConst("Abuf", sx("Array", it.isort(), it.sort(intKind{8, false})))
		sl := sx("slen", args[1].t)
		c.softAxiom(na, fmt.Sprintf("(forall ((k %s)) (! (= (select %s k) (ite (and %s %s) (select (sbytes %s) %s) (select %s k))) :pattern ((select %s k))))",
			it.isort(), na, it.le(I64, l0, "k"), it.lt(I64, "k", it.addNW(l0, sl)), args[1].t, it.sub(I64, "k", l0), old, na))
		st.mem[data] = c.define("H_"+data, tr.memSortFull(data), sx("store", d0, args[0].t, na))
		st.mem[ln] = c.define("H_"+ln, tr.memSortFull(ln), sx("store", tr.memGet(st, ln), args[0].t, it.addNW(l0, sl)))
		f.noteWrite(data, b.Index)
		f.noteWrite(ln, b.Index)
		if tt, ok := rt.(*types.Tuple); ok && tt.Len() == 2 {
			return Val{tup: []Val{{t: sl, typ: tt.At(0).Type()}, {t: "ifc_nil", typ: tt.At(1).Type()}}}, true
		}
		return Val{}, true
	case "(*bytes.Buffer).WriteRune", "(*strings.Builder).WriteRune":
		// ASCII exact; other runes: 1..4 unspecified bytes >= 0x80
		ln, data := tr.bufKeys()
		l0 := c.define("bl", it.isort(), sx("select", tr.memGet(st, ln), args[0].t))
		d0 := tr.memGet(st, data)
		old := sx("select", d0, args[0].t)
		R := intKind{32, true}
		B8 := intKind{8, false}
		ascii := and(it.le(R, it.konst(R, bigInt(0)), args[1].t), it.lt(R, args[1].t, it.konst(R, bigInt(0x80))))
		w := c.declConst("rw", it.isort())
		na := c.declConst("Abuf", sx("Array", it.isort(), it.sort(B8)))
		st.guard = and(st.guard, it.le(I64, it.iconst(1), w), it.le(I64, w, it.iconst(4)), imp(ascii, eq(w, it.iconst(1))))
		c.softAxiom(na, fmt.Sprintf("(forall ((k %s)) (! (and (=> (or %s %s) (= (select %s k) (select %s k))) (=> (and %s %s (not %s)) %s)) :pattern ((select %s k))))",
			it.isort(), it.lt(I64, "k", l0), it.le(I64, it.addNW(l0, w), "k"), na, old,
			it.le(I64, l0, "k"), it.lt(I64, "k", it.addNW(l0, w)), ascii, it.le(B8, it.konst(B8, bigInt(0x80)), sx("select", na, "k")), na))
		c.axiom(na, imp(ascii, eq(sx("select", na, l0), it.conv(R, B8, args[1].t))))
		st.mem[data] = c.define("H_"+data, tr.memSortFull(data), sx("store", d0, args[0].t, na))
		st.mem[ln] = c.define("H_"+ln, tr.memSortFull(ln), sx("store", tr.memGet(st, ln), args[0].t, it.addNW(l0, w)))
		f.noteWrite(data, b.Index)
		f.noteWrite(ln, b.Index)
		if tt, ok := rt.(*types.Tuple); ok && tt.Len() == 2 {
			return Val{tup: []Val{{t: w, typ: tt.At(0).Type()}, {t: "ifc_nil", typ: tt.At(1).Type()}}}, true
		}
		return Val{}, true
	case "(*bytes.Buffer).String", "(*strings.Builder).String":
		ln, data := tr.bufKeys()
		s := c.declConst("bufstr", "Str")
		c.axiom(s, and(eq(sx("slen", s), sx("select", tr.memGet(st, ln), args[0].t)), eq(sx("sbytes", s), sx("select", tr.memGet(st, data), args[0].t))))
		return Val{t: s, typ: rt}, true
	case "(*bytes.Buffer).Len", "(*strings.Builder).Len":
		ln, _ := tr.bufKeys()
		return Val{t: sx("select", tr.memGet(st, ln), args[0].t), typ: rt}, true
	case "unicode/utf8.RuneCountInString":
		c.declFun("utf8_count", []Sx{"Str"}, it.isort())
		v := Val{t: c.define(name, it.isort(), sx("utf8_count", args[0].t)), typ: rt}
		st.guard = and(st.guard, it.le(I64, it.iconst(0), v.t), it.le(I64, v.t, sx("slen", args[0].t)),
			imp(it.lt(I64, it.iconst(0), sx("slen", args[0].t)), it.lt(I64, it.iconst(0), v.t)))
		c.note("utf8.RuneCountInString: 0 <= count <= len, count > 0 iff len > 0 (assumed)")
		return v, true
	}
	if strings.HasPrefix(fname, "math.") && fn.Pkg != nil && fn.Pkg.Pkg.Path() == "math" {
		if v, ok := tr.mathCall(fn.Name(), args, rt); ok {
			if strings.ContainsAny(v.t, " (") {
				v.t = c.define(name, c.sortOf(rt), v.t)
			}
			return v, true
		}
	}
	return Val{}, false
}

// ghost content of bytes.Buffer / strings.Builder objects
func (tr *Translator) bufKeys() (ln, data string) {
	c := tr.c
	ln, data = "XB:len", "XB:data"
	tr.regKey(ln, []Sx{"Int"}, c.it.isort())
	tr.regKey(data, []Sx{"Int", c.it.isort()}, c.it.sort(intKind{8, false}))
	return
}

// litLen: if term is a string literal constant, its length
func (tr *Translator) litLen(t Sx) (int, bool) {
	for s, n := range tr.c.strLits {
		if n == t {
			return len(s), true
		}
	}
	return 0, false
}

var _ = ssa.NaiveForm
