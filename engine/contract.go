package main

import (
	"bytes"
	"fmt"
	"go/ast"
	"go/parser"
	"go/printer"
	"go/token"
	"go/types"
	"os"
	"path/filepath"
	"regexp"
	"sort"
	"strings"

	"golang.org/x/tools/go/ssa"
)

// ---------------------------------------------------------------------------------------------
// Contract files: /repo/pkg/<p>/verif_contracts.go, //go:build verif, comment-only.
//
//   //@ func <name>                 name as in the package: f, T.m, (*T).m
//   //@ property C07 C18            properties this function's obligations serve
//   //@ encoding bv|int
//   //@ requires <go expr>          //@ ensures <go expr>
//   //@ loop <k> invariant <expr>   //@ loop <k> decreases <expr>
//   //@ modifies <key> ...          heap keys the callers must havoc (e.g. F:mlrval.Mlrval.printrep); "nothing"; "*"
//   //@ nilchecks                   generate nil-dereference obligations (default: assumed)
//   //@ nosafety                    do not generate safety obligations
//   //@ inline                      callers inline the body even though a contract exists
//   //@ spec <go func decl>         pure specification function (emitted into the overlay as real Go)
//   //@ import "path"               extra import for the synthesized file
//   //@ lemma <name>: <expr>        closed boolean formula over spec functions (quantify with forall)
//   //@ table <global> <specfn>     static table invariant: forall indices, cell(i..) satisfies specfn(i.., cell)
// ---------------------------------------------------------------------------------------------

type Clause struct {
	Text   string
	Kind   string // requires, ensures, invariant, decreases, lemma
	Name   string // synthesized function name (requires/ensures/lemma)
	Expr   ast.Expr
	Info   *types.Info
	Params []string
	File   string
	Line   int
	Class  string
}

// GhostUpdate: at function exit, ghost field <Name> is set.
//   ghost <name>(<ptr expr>) = func(i int) *T { return <expr> }   sequence-valued ghost field of one object
//   ghost <name>(<ptr expr>) = <int expr>                          int-valued ghost field of one object
//   ghost <name>(*) = func(e *T) int { return <expr> }             int-valued ghost field of every object
type GhostUpdate struct {
	Name   string
	Target string // "*" or pointer expression text
	Clause *Clause
	All    bool
}

// CallsiteSpec: an assertion at every call of <Callee> inside the function under contract, over
// the enclosing function's variables and the call's arguments (callArg[T](i), receiver first).
type CallsiteSpec struct {
	Callee string
	Text   string
	File   string
	Line   int
}

type LoopSpec struct {
	Invariants []*Clause
	Decreases  []*Clause
}

type Contract struct {
	FuncName   string // package-local name as written
	Pkg        string // short package dir, e.g. "bifs"
	Qual       string // e.g. bifs.plus_n_ii or (*mlrval.Mlrmap).Unlink
	Fn         *ssa.Function
	Decl       *ast.FuncDecl
	Properties []string
	Mode       Mode
	ModeSet    bool
	Requires   []*Clause
	Ensures    []*Clause
	Callsites  []*CallsiteSpec
	Ghosts     []*GhostUpdate // ghost-state updates applied at exit (the chosen witnesses of the abstract view)
	Loops      map[int]*LoopSpec
	Modifies   []string
	ModSet     bool
	NilChecks  bool
	NoSafety   bool
	Inline     bool
	Trusted    bool // contract assumed, body not verified (listed in trusted base)
	PreNames   []string
	PostNames  []string
	CalleeClassesOnly bool
	IfaceMethod bool // contract of an interface method: assumed of every implementation (trusted)
	File       string
	Line       int
}

type Lemma struct {
	Name       string
	Pkg        string
	Properties []string
	Mode       Mode
	Clause     *Clause
	Uses       []string
}

// GlobalInv: an invariant over package-level state (e.g. the mlrval singletons), assumed at entry
// of every function and after every havoc, checked at exit of verified functions that write the
// fields it mentions.
type GlobalInv struct {
	Name   string
	Pkg    string
	Clause *Clause
}

type TableSpec struct {
	Global     string
	Pkg        string
	SpecFn     string
	Properties []string
	Line       int
	File       string
	Len        int // required number of cells of a 1-D table (-1: not checked)
}

type ContractSet struct {
	ByQual    map[string]*Contract
	ByFn      map[*ssa.Function]*Contract
	ByIface   map[string]*Contract // "pkg.Iface.Method" -> contract assumed of every implementation
	List      []*Contract
	Lemmas    []*Lemma
	Tables    []*TableSpec
	Specs     map[string][]string // pkg -> spec function decl texts
	Imports   map[string][]string
	Files     map[string]string // pkg -> contract file
	Overlay   map[string][]byte
	SpecDecls map[string]*specFunc // "pkg.name" -> decl (after load)
	GInvs     []*GlobalInv
	Axioms    []*GlobalInv // trusted facts about external (library) functions
	KFs       []KnownFinding
	KFClauses map[int]*Clause       // index into KFs -> region clause
	ClassDefs map[string]string      // "pkg.class" -> predicate text
	Classes   map[string][]*Contract // "pkg.class" -> members
}

type specFunc struct {
	Decl *ast.FuncDecl
	Info *types.Info
	Pkg  string
}

const preludeSrc = `
// Specification builtins (real Go, so that contract text is checked by the Go type checker).
func old[T any](x T) T                                 { return x }
func forall(lo, hi int, f func(i int) bool) bool      { for i := lo; i < hi; i++ { if !f(i) { return false } }; return true }
func exists(lo, hi int, f func(i int) bool) bool      { for i := lo; i < hi; i++ { if f(i) { return true } }; return false }
func forallp[T any](f func(p *T) bool) bool            { return true }
func forallstr(f func(s string) bool) bool             { return true }
func forallint(f func(i int64) bool) bool              { return true }
func imp(a, b bool) bool                               { return !a || b }
func ite[T any](c bool, a, b T) T                      { if c { return a }; return b }
func addFits(a, b int64) bool                          { c := a + b; return (c > a) == (b > 0) }
func subFits(a, b int64) bool                          { c := a - b; return (c < a) == (b > 0) }
func mulFits(a, b int64) bool                          { if a == 0 || b == 0 { return true }; c := a * b; return c/b == a && !(a == -1 && b == -9223372036854775808) && !(b == -1 && a == -9223372036854775808) }
func mulAbsLtU(a, b int64, bound uint64) bool          { return true }
func isNaN(x float64) bool                             { return x != x }
func isInf(x float64) bool                             { return x > 1.797693134862315708145274237317043567981e+308 || x < -1.797693134862315708145274237317043567981e+308 }
func sameFloat(a, b float64) bool                      { return a == b || (a != a && b != b) }
func fresh[T any](p *T) bool                           { return true }
func typeIs[T any](x interface{}) bool                 { _, ok := x.(T); return ok }
func streq(a, b string) bool                           { return a == b }
func exactDiv(a, b int64) bool                         { return b != 0 && a%b == 0 }
func floorDiv(a, b int64) int64                        { q := a / b; if (a%b != 0) && ((a < 0) != (b < 0)) { q-- }; return q }
func popcount(a int64) int64                           { n := int64(0); for u := uint64(a); u != 0; u &= u - 1 { n++ }; return n }
func fabs(x float64) float64                           { if x < 0 { return -x }; return x }
func ffloor(x float64) float64                         { return x }
func fceil(x float64) float64                          { return x }
func fround(x float64) float64                         { return x }
func ftrunc(x float64) float64                         { return x }
func reachable() bool                                  { return true }
func unchanged[T any](p *T) bool                       { return true }
func allocated[T any](p *T) bool                       { return true }
func funcIs(f interface{}, name string) bool           { return true }
func inClass(f interface{}, class string) bool         { return true }
func nothingModified() bool                            { return true }
func preservedArrays[T any]() bool                     { return true }
func callArg[T any](i int) T                           { var z T; return z }
func ghostInt(p interface{}, name string) int          { return 0 }
func ghostSeq[U any](p interface{}, name string, i int) *U { return nil }
func hasKey[K comparable, V any](m map[K]V, k K) bool  { _, ok := m[k]; return ok }
func ext[T any](name string, idx int, args ...interface{}) T { var z T; return z }
func allBytes(b []byte, lo int, f func(c byte) bool) bool { for i := lo; i < len(b); i++ { if !f(b[i]) { return false } }; return true }
func rangeBytes(b []byte, lo, hi int, f func(c byte) bool) bool { for i := lo; i < hi; i++ { if !f(b[i]) { return false } }; return true }
func rangeChars(s string, lo, hi int, f func(c byte) bool) bool { for i := lo; i < hi; i++ { if !f(s[i]) { return false } }; return true }
func allChars(s string, lo int, f func(c byte) bool) bool { for i := lo; i < len(s); i++ { if !f(s[i]) { return false } }; return true }

// rangeindex names the hidden index of the enclosing for-range-over-slice loop in loop clauses
var rangeindex int
`

var preludeNames = []string{"old", "forall", "exists", "forallp", "forallstr", "forallint", "imp", "ite", "addFits", "subFits", "mulFits", "mulAbsLtU", "isNaN", "isInf", "sameFloat", "fresh",
	"typeIs", "streq", "exactDiv", "floorDiv", "popcount", "fabs", "ffloor", "fceil", "fround", "ftrunc", "reachable", "unchanged", "allocated", "funcIs", "inClass", "nothingModified", "rangeindex", "allBytes", "allChars", "rangeBytes", "rangeChars", "ext", "hasKey", "ghostInt", "ghostSeq", "callArg", "preservedArrays"}

func pkgDirOf(short string) string { return filepath.Join(repoDir, "pkg", short) }

// parseContractFiles reads every pkg/**/verif_contracts.go and builds the overlay.
func parseContractFiles(extraFiles []string) (*ContractSet, error) {
	cs := &ContractSet{KFClauses: map[int]*Clause{}, ClassDefs: map[string]string{}, Classes: map[string][]*Contract{}, ByQual: map[string]*Contract{}, ByFn: map[*ssa.Function]*Contract{}, Specs: map[string][]string{},
		Imports: map[string][]string{}, Files: map[string]string{}, Overlay: map[string][]byte{}, SpecDecls: map[string]*specFunc{}}
	var files []string
	filepath.Walk(filepath.Join(repoDir, "pkg"), func(p string, info os.FileInfo, err error) error {
		if err == nil && !info.IsDir() && info.Name() == "verif_contracts.go" {
			files = append(files, p)
		}
		return nil
	})
	files = append(files, extraFiles...)
	sort.Strings(files)
	for _, file := range files {
		if err := cs.parseFile(file); err != nil {
			return nil, err
		}
	}
	return cs, nil
}

func (cs *ContractSet) parseFile(file string) error {
	data, err := os.ReadFile(file)
	if err != nil {
		return err
	}
	rel, _ := filepath.Rel(filepath.Join(repoDir, "pkg"), filepath.Dir(file))
	pkg := filepath.ToSlash(rel)
	if !strings.HasPrefix(file, repoDir) {
		// extra file: first line must be "//@ package <short>"
		pkg = ""
	}
	var cur *Contract
	var curProps []string
	lines := strings.Split(string(data), "\n")
	for ln := 0; ln < len(lines); ln++ {
		line := strings.TrimSpace(lines[ln])
		if !strings.HasPrefix(line, "//@") {
			continue
		}
		body := strings.TrimSpace(line[3:])
		// continuation lines: "//@+ ..."
		for ln+1 < len(lines) && strings.HasPrefix(strings.TrimSpace(lines[ln+1]), "//@+") {
			ln++
			body += " " + strings.TrimSpace(strings.TrimSpace(lines[ln])[4:])
		}
		word, rest := body, ""
		if i := strings.IndexAny(body, " \t"); i >= 0 {
			word, rest = body[:i], strings.TrimSpace(body[i+1:])
		}
		mk := func(kind, text string) *Clause {
			return &Clause{Text: text, Kind: kind, File: file, Line: ln + 1}
		}
		switch word {
		case "package":
			pkg = rest
		case "func":
			cur = &Contract{FuncName: rest, Pkg: pkg, Loops: map[int]*LoopSpec{}, File: file, Line: ln + 1, Properties: curProps}
			cur.Qual = qualName(pkg, rest)
			if _, dup := cs.ByQual[cur.Qual]; dup {
				return fmt.Errorf("%s:%d: duplicate contract for %s", file, ln+1, cur.Qual)
			}
			cs.ByQual[cur.Qual] = cur
			cs.List = append(cs.List, cur)
		case "properties": // default properties for following funcs
			curProps = strings.Fields(rest)
		case "property":
			if cur == nil {
				return fmt.Errorf("%s:%d: property outside func", file, ln+1)
			}
			cur.Properties = strings.Fields(rest)
		case "encoding":
			if cur == nil {
				return fmt.Errorf("%s:%d: encoding outside func", file, ln+1)
			}
			cur.ModeSet = true
			if rest == "int" {
				cur.Mode = ModeInt
			} else {
				cur.Mode = ModeBV
			}
		case "requires":
			cur.Requires = append(cur.Requires, mk("requires", rest))
		case "ensures":
			cur.Ensures = append(cur.Ensures, mk("ensures", rest))
		case "callsite":
			i := strings.Index(rest, ":")
			if i < 0 {
				return fmt.Errorf("%s:%d: bad callsite clause", file, ln+1)
			}
			cur.Callsites = append(cur.Callsites, &CallsiteSpec{Callee: strings.TrimSpace(rest[:i]), Text: strings.TrimSpace(rest[i+1:]), File: file, Line: ln + 1})
		case "ghost":
			// ghost name(target) = value
			lp := strings.Index(rest, "(")
			eqi := strings.Index(rest, ") = ")
			if lp < 0 || eqi < lp {
				return fmt.Errorf("%s:%d: bad ghost clause", file, ln+1)
			}
			g := &GhostUpdate{Name: strings.TrimSpace(rest[:lp]), Target: strings.TrimSpace(rest[lp+1 : eqi])}
			val := strings.TrimSpace(rest[eqi+4:])
			if g.Target == "*" {
				g.All = true
				g.Clause = mk("ghost", val)
			} else {
				g.Clause = mk("ghost", "[]interface{}{"+g.Target+", "+val+"}")
			}
			cur.Ghosts = append(cur.Ghosts, g)
		case "loop":
			var k int
			var kind string
			n, _ := fmt.Sscanf(rest, "%d %s", &k, &kind)
			if n != 2 {
				return fmt.Errorf("%s:%d: bad loop clause", file, ln+1)
			}
			expr := strings.TrimSpace(rest[strings.Index(rest, kind)+len(kind):])
			ls := cur.Loops[k]
			if ls == nil {
				ls = &LoopSpec{}
				cur.Loops[k] = ls
			}
			if kind == "invariant" {
				ls.Invariants = append(ls.Invariants, mk("invariant", expr))
			} else if kind == "decreases" {
				ls.Decreases = append(ls.Decreases, mk("decreases", expr))
			} else {
				return fmt.Errorf("%s:%d: bad loop clause kind %s", file, ln+1, kind)
			}
		case "modifies":
			cur.ModSet = true
			if rest != "nothing" {
				cur.Modifies = append(cur.Modifies, strings.Fields(rest)...)
			}
		case "classdef":
			i := strings.Index(rest, "=")
			if i < 0 {
				return fmt.Errorf("%s:%d: bad classdef", file, ln+1)
			}
			cs.ClassDefs[pkg+"."+strings.TrimSpace(rest[:i])] = strings.TrimSpace(rest[i+1:])
		case "class":
			for _, cn := range strings.Fields(rest) {
				def, ok := cs.ClassDefs[pkg+"."+cn]
				if !ok {
					return fmt.Errorf("%s:%d: unknown class %s", file, ln+1, cn)
				}
				cl := mk("ensures", def)
				cl.Class = cn
				cur.Ensures = append(cur.Ensures, cl)
				cs.Classes[pkg+"."+cn] = append(cs.Classes[pkg+"."+cn], cur)
			}
		case "callee-classes-only":
			// at call sites in this function only the class postconditions of callees are assumed
			// (keeps dispatcher VCs free of the kernels' arithmetic)
			cur.CalleeClassesOnly = true
		case "nilchecks":
			cur.NilChecks = true
		case "nosafety":
			cur.NoSafety = true
		case "inline":
			cur.Inline = true
		case "trusted":
			cur.Trusted = true
		case "spec":
			cs.Specs[pkg] = append(cs.Specs[pkg], rest)
		case "import":
			cs.Imports[pkg] = append(cs.Imports[pkg], rest)
		case "lemma":
			i := strings.Index(rest, ":")
			if i < 0 {
				return fmt.Errorf("%s:%d: bad lemma", file, ln+1)
			}
			lm := &Lemma{Name: strings.TrimSpace(rest[:i]), Pkg: pkg, Properties: curProps, Mode: ModeInt}
			lm.Clause = mk("lemma", strings.TrimSpace(rest[i+1:]))
			cs.Lemmas = append(cs.Lemmas, lm)
			cur = nil
		case "axiom":
			i := strings.Index(rest, ":")
			if i < 0 {
				return fmt.Errorf("%s:%d: bad axiom", file, ln+1)
			}
			cs.Axioms = append(cs.Axioms, &GlobalInv{Name: strings.TrimSpace(rest[:i]), Pkg: pkg, Clause: mk("axiom", strings.TrimSpace(rest[i+1:]))})
			cur = nil
		case "ginv":
			i := strings.Index(rest, ":")
			if i < 0 {
				return fmt.Errorf("%s:%d: bad ginv", file, ln+1)
			}
			cs.GInvs = append(cs.GInvs, &GlobalInv{Name: strings.TrimSpace(rest[:i]), Pkg: pkg, Clause: mk("ginv", strings.TrimSpace(rest[i+1:]))})
			cur = nil
		case "lemma-encoding":
			if len(cs.Lemmas) > 0 && rest == "bv" {
				cs.Lemmas[len(cs.Lemmas)-1].Mode = ModeBV
			}
		case "table":
			fs := strings.Fields(rest)
			if len(fs) != 2 && len(fs) != 3 {
				return fmt.Errorf("%s:%d: bad table clause", file, ln+1)
			}
			tb := &TableSpec{Global: fs[0], SpecFn: fs[1], Pkg: pkg, Properties: curProps, Line: ln + 1, File: file, Len: -1}
			if len(fs) == 3 {
				fmt.Sscanf(fs[2], "%d", &tb.Len)
			}
			cs.Tables = append(cs.Tables, tb)
		default:
			return fmt.Errorf("%s:%d: unknown contract keyword %q", file, ln+1, word)
		}
	}
	if pkg != "" {
		cs.Files[pkg] = file
	}
	return nil
}

func qualName(pkg, name string) string {
	short := pkg
	if i := strings.LastIndex(pkg, "/"); i >= 0 {
		// keep full short path (e.g. transformers/utils) for uniqueness
		short = pkg
	}
	if strings.HasPrefix(name, "(*") {
		i := strings.Index(name, ")")
		return "(*" + short + "." + name[2:i] + ")" + name[i+1:]
	}
	if i := strings.Index(name, "."); i >= 0 {
		return "(" + short + "." + name[:i] + ")" + name[i:]
	}
	return short + "." + name
}

// ---------------------------------------------------------------------------------------------
// Overlay synthesis (before loading): prelude, spec functions and one Go function per
// requires/ensures/lemma clause so that go/types checks the contract text in the package's scope.
// ---------------------------------------------------------------------------------------------

func findFuncDecl(files []*ast.File, name string) *ast.FuncDecl {
	recv, ptr := "", false
	fname := name
	if strings.HasPrefix(name, "(*") {
		i := strings.Index(name, ")")
		recv, ptr, fname = name[2:i], true, name[i+2:]
	} else if i := strings.Index(name, "."); i >= 0 {
		recv, fname = name[:i], name[i+1:]
	}
	for _, f := range files {
		for _, d := range f.Decls {
			fd, ok := d.(*ast.FuncDecl)
			if !ok || fd.Name.Name != fname {
				continue
			}
			if recv == "" {
				if fd.Recv == nil {
					return fd
				}
				continue
			}
			if fd.Recv == nil || len(fd.Recv.List) == 0 {
				continue
			}
			rt := fd.Recv.List[0].Type
			isPtr := false
			if st, ok := rt.(*ast.StarExpr); ok {
				rt, isPtr = st.X, true
			}
			if ix, ok := rt.(*ast.IndexExpr); ok {
				rt = ix.X
			}
			if id, ok := rt.(*ast.Ident); ok && id.Name == recv && isPtr == ptr {
				return fd
			}
		}
	}
	return nil
}

// findIfaceMethod: "Iface.Method" -> a synthetic declaration (receiver named recv)
func findIfaceMethod(files []*ast.File, name string) *ast.FuncDecl {
	i := strings.Index(name, ".")
	if i < 0 || strings.HasPrefix(name, "(") {
		return nil
	}
	tname, mname := name[:i], name[i+1:]
	for _, f := range files {
		for _, d := range f.Decls {
			gd, ok := d.(*ast.GenDecl)
			if !ok {
				continue
			}
			for _, sp := range gd.Specs {
				ts, ok := sp.(*ast.TypeSpec)
				if !ok || ts.Name.Name != tname {
					continue
				}
				it, ok := ts.Type.(*ast.InterfaceType)
				if !ok {
					continue
				}
				for _, m := range it.Methods.List {
					if len(m.Names) == 1 && m.Names[0].Name == mname {
						if ft, ok := m.Type.(*ast.FuncType); ok {
							return &ast.FuncDecl{
								Recv: &ast.FieldList{List: []*ast.Field{{Names: []*ast.Ident{ast.NewIdent("recv")}, Type: ast.NewIdent(tname)}}},
								Name: ast.NewIdent(mname), Type: ft,
							}
						}
					}
				}
			}
		}
	}
	return nil
}

func exprString(fset *token.FileSet, e ast.Node) string {
	var b bytes.Buffer
	printer.Fprint(&b, fset, e)
	return b.String()
}

// rewriteSugar: forall(i, lo, hi, body) -> forall(lo, hi, func(i int) bool { return body })
func rewriteSugar(e ast.Expr) ast.Expr {
	var rw func(n ast.Expr) ast.Expr
	rw = func(n ast.Expr) ast.Expr {
		switch x := n.(type) {
		case *ast.CallExpr:
			for i := range x.Args {
				x.Args[i] = rw(x.Args[i])
			}
			x.Fun = rw(x.Fun)
			if id, ok := x.Fun.(*ast.Ident); ok && (id.Name == "forall" || id.Name == "exists") && len(x.Args) == 4 {
				if v, ok := x.Args[0].(*ast.Ident); ok {
					fl := &ast.FuncLit{
						Type: &ast.FuncType{Params: &ast.FieldList{List: []*ast.Field{{Names: []*ast.Ident{v}, Type: ast.NewIdent("int")}}},
							Results: &ast.FieldList{List: []*ast.Field{{Type: ast.NewIdent("bool")}}}},
						Body: &ast.BlockStmt{List: []ast.Stmt{&ast.ReturnStmt{Results: []ast.Expr{x.Args[3]}}}},
					}
					x.Args = []ast.Expr{x.Args[1], x.Args[2], fl}
				}
			}
			// forallp(p, T, body) / forallstr(s, body) / forallint(i, body)
			if id, ok := x.Fun.(*ast.Ident); ok && id.Name == "forallp" && len(x.Args) == 3 {
				if v, ok := x.Args[0].(*ast.Ident); ok {
					fl := &ast.FuncLit{
						Type: &ast.FuncType{Params: &ast.FieldList{List: []*ast.Field{{Names: []*ast.Ident{v}, Type: &ast.StarExpr{X: x.Args[1]}}}},
							Results: &ast.FieldList{List: []*ast.Field{{Type: ast.NewIdent("bool")}}}},
						Body: &ast.BlockStmt{List: []ast.Stmt{&ast.ReturnStmt{Results: []ast.Expr{x.Args[2]}}}},
					}
					x.Args = []ast.Expr{fl}
				}
			}
			if id, ok := x.Fun.(*ast.Ident); ok && (id.Name == "forallstr" || id.Name == "forallint") && len(x.Args) == 2 {
				if v, ok := x.Args[0].(*ast.Ident); ok {
					ty := "string"
					if id.Name == "forallint" {
						ty = "int64"
					}
					fl := &ast.FuncLit{
						Type: &ast.FuncType{Params: &ast.FieldList{List: []*ast.Field{{Names: []*ast.Ident{v}, Type: ast.NewIdent(ty)}}},
							Results: &ast.FieldList{List: []*ast.Field{{Type: ast.NewIdent("bool")}}}},
						Body: &ast.BlockStmt{List: []ast.Stmt{&ast.ReturnStmt{Results: []ast.Expr{x.Args[1]}}}},
					}
					x.Args = []ast.Expr{fl}
				}
			}
			return x
		case *ast.BinaryExpr:
			x.X, x.Y = rw(x.X), rw(x.Y)
		case *ast.UnaryExpr:
			x.X = rw(x.X)
		case *ast.ParenExpr:
			x.X = rw(x.X)
		case *ast.SelectorExpr:
			x.X = rw(x.X)
		case *ast.IndexExpr:
			x.X, x.Index = rw(x.X), rw(x.Index)
		case *ast.SliceExpr:
			x.X = rw(x.X)
			if x.Low != nil {
				x.Low = rw(x.Low)
			}
			if x.High != nil {
				x.High = rw(x.High)
			}
		case *ast.StarExpr:
			x.X = rw(x.X)
		case *ast.TypeAssertExpr:
			x.X = rw(x.X)
		case *ast.CompositeLit:
			for i := range x.Elts {
				x.Elts[i] = rw(x.Elts[i])
			}
		case *ast.FuncLit:
			for _, s := range x.Body.List {
				if r, ok := s.(*ast.ReturnStmt); ok {
					for i := range r.Results {
						r.Results[i] = rw(r.Results[i])
					}
				}
			}
		}
		return n
	}
	return rw(e)
}

func parseSugared(text string) (ast.Expr, error) {
	e, err := parser.ParseExpr(text)
	if err != nil {
		return nil, err
	}
	return rewriteSugar(e), nil
}

// signature text of the synthesized function: receiver + params (+ results)
func sigParams(fset *token.FileSet, fd *ast.FuncDecl, withResults bool) (string, []string, error) {
	var parts []string
	var names []string
	anon := 0
	add := func(fl *ast.FieldList, resultMode bool) {
		if fl == nil {
			return
		}
		nres := 0
		for _, fld := range fl.List {
			if len(fld.Names) == 0 {
				nres++
			} else {
				nres += len(fld.Names)
			}
		}
		ri := 0
		for _, fld := range fl.List {
			ty := fld.Type
			if el, ok := ty.(*ast.Ellipsis); ok {
				ty = &ast.ArrayType{Elt: el.Elt}
			}
			ts := exprString(fset, ty)
			if len(fld.Names) == 0 {
				var n string
				if resultMode {
					if nres == 1 {
						n = "result"
					} else {
						n = fmt.Sprintf("result%d", ri)
					}
				} else {
					anon++
					n = fmt.Sprintf("_p%d", anon)
				}
				ri++
				parts = append(parts, n+" "+ts)
				names = append(names, n)
				continue
			}
			for _, nm := range fld.Names {
				n := nm.Name
				if n == "_" {
					anon++
					n = fmt.Sprintf("_p%d", anon)
				}
				ri++
				parts = append(parts, n+" "+ts)
				names = append(names, n)
			}
		}
	}
	if fd.Type.TypeParams != nil {
		return "", nil, fmt.Errorf("generic function %s not supported", fd.Name.Name)
	}
	add(fd.Recv, false)
	add(fd.Type.Params, false)
	if withResults {
		add(fd.Type.Results, true)
	}
	return strings.Join(parts, ", "), names, nil
}

func (cs *ContractSet) buildOverlay() error {
	fset := token.NewFileSet()
	pkgs := map[string]bool{}
	for _, c := range cs.List {
		pkgs[c.Pkg] = true
	}
	for p := range cs.Specs {
		pkgs[p] = true
	}
	for _, lm := range cs.Lemmas {
		pkgs[lm.Pkg] = true
	}
	for _, t := range cs.Tables {
		pkgs[t.Pkg] = true
	}
	for _, gi := range cs.GInvs {
		pkgs[gi.Pkg] = true
	}
	for _, gi := range cs.Axioms {
		pkgs[gi.Pkg] = true
	}
	for pkg := range pkgs {
		dir := pkgDirOf(pkg)
		parsed, err := parser.ParseDir(fset, dir, func(fi os.FileInfo) bool {
			return !strings.HasSuffix(fi.Name(), "_test.go") && fi.Name() != "verif_contracts.go"
		}, parser.ParseComments)
		if err != nil {
			return fmt.Errorf("parse %s: %v", dir, err)
		}
		var files []*ast.File
		pkgName := ""
		for name, p := range parsed {
			if strings.HasSuffix(name, "_test") {
				continue
			}
			pkgName = name
			for fn, f := range p.Files {
				_ = fn
				files = append(files, f)
			}
		}
		// collision check + import union
		imports := map[string]string{} // "alias path" dedupe
		top := map[string]bool{}
		for _, f := range files {
			for _, d := range f.Decls {
				switch x := d.(type) {
				case *ast.FuncDecl:
					if x.Recv == nil {
						top[x.Name.Name] = true
					}
				case *ast.GenDecl:
					for _, s := range x.Specs {
						switch y := s.(type) {
						case *ast.ValueSpec:
							for _, n := range y.Names {
								top[n.Name] = true
							}
						case *ast.TypeSpec:
							top[y.Name.Name] = true
						}
					}
				}
			}
			for _, im := range f.Imports {
				alias := ""
				if im.Name != nil {
					alias = im.Name.Name
					if alias == "_" || alias == "." {
						continue
					}
				}
				imports[alias+" "+im.Path.Value] = alias + " " + im.Path.Value
			}
		}
		for _, n := range preludeNames {
			if top[n] {
				return fmt.Errorf("package %s already declares %q (clashes with the contract prelude)", pkg, n)
			}
		}
		for _, im := range cs.Imports[pkg] {
			imports[" "+im] = " " + im
		}
		var b strings.Builder
		b.WriteString(preludeSrc)
		for _, s := range cs.Specs[pkg] {
			// spec bodies may use sugar: parse as a file fragment, rewrite, print
			src := "package p\n" + s
			f, err := parser.ParseFile(fset, "", src, 0)
			if err != nil {
				return fmt.Errorf("spec in package %s: %v\n  %s", pkg, err, s)
			}
			for _, d := range f.Decls {
				if fd, ok := d.(*ast.FuncDecl); ok && fd.Body != nil {
					ast.Inspect(fd.Body, func(n ast.Node) bool {
						if r, ok := n.(*ast.ReturnStmt); ok {
							for i := range r.Results {
								r.Results[i] = rewriteSugar(r.Results[i])
							}
						}
						return true
					})
				}
				b.WriteString(exprString(fset, d) + "\n")
			}
		}
		n := 0
		for _, c := range cs.List {
			if c.Pkg != pkg {
				continue
			}
			fd := findFuncDecl(files, c.FuncName)
			if fd == nil {
				if ifd := findIfaceMethod(files, c.FuncName); ifd != nil {
					fd = ifd
					c.IfaceMethod = true
					c.Trusted = true
				}
			}
			if fd == nil {
				// drift: reported by the checker (function named by a contract no longer exists)
				continue
			}
			c.Decl = fd
			pre, preNames, err := sigParams(fset, fd, false)
			if err != nil {
				return fmt.Errorf("%s: %v", c.Qual, err)
			}
			post, postNames, _ := sigParams(fset, fd, true)
			c.PreNames, c.PostNames = preNames, postNames
			emit := func(cl *Clause, sig string, names []string) error {
				e, err := parseSugared(cl.Text)
				if err != nil {
					return fmt.Errorf("%s:%d: %v\n  %s", cl.File, cl.Line, err, cl.Text)
				}
				n++
				cl.Name = fmt.Sprintf("verif__%s_%d", cl.Kind, n)
				cl.Params = names
				fmt.Fprintf(&b, "func %s(%s) bool { return %s }\n", cl.Name, sig, exprString(fset, e))
				return nil
			}
			for _, cl := range c.Requires {
				if err := emit(cl, pre, preNames); err != nil {
					return err
				}
			}
			for _, cl := range c.Ensures {
				if err := emit(cl, post, postNames); err != nil {
					return err
				}
			}
			for _, g := range c.Ghosts {
				e, err := parseSugared(g.Clause.Text)
				if err != nil {
					return fmt.Errorf("%s:%d: %v\n  %s", g.Clause.File, g.Clause.Line, err, g.Clause.Text)
				}
				n++
				g.Clause.Name = fmt.Sprintf("verif__ghost_%d", n)
				g.Clause.Params = postNames
				fmt.Fprintf(&b, "func %s(%s) interface{} { return %s }\n", g.Clause.Name, post, exprString(fset, e))
			}
			for i, kf := range cs.KFs {
				if kf.Func == c.Qual && kf.Region != "" {
					cl := &Clause{Text: kf.Region, Kind: "kfregion", File: "known_findings.json", Line: i + 1}
					if err := emit(cl, pre, preNames); err != nil {
						return err
					}
					cs.KFClauses[i] = cl
				}
			}
		}
		for _, gi := range append(append([]*GlobalInv{}, cs.GInvs...), cs.Axioms...) {
			if gi.Pkg != pkg {
				continue
			}
			e, err := parseSugared(gi.Clause.Text)
			if err != nil {
				return fmt.Errorf("%s:%d: %v", gi.Clause.File, gi.Clause.Line, err)
			}
			n++
			gi.Clause.Name = fmt.Sprintf("verif__ginv_%d", n)
			fmt.Fprintf(&b, "func %s() bool { return %s }\n", gi.Clause.Name, exprString(fset, e))
		}
		for _, lm := range cs.Lemmas {
			if lm.Pkg != pkg {
				continue
			}
			e, err := parseSugared(lm.Clause.Text)
			if err != nil {
				return fmt.Errorf("%s:%d: %v", lm.Clause.File, lm.Clause.Line, err)
			}
			n++
			lm.Clause.Name = fmt.Sprintf("verif__lemma_%d", n)
			fmt.Fprintf(&b, "func %s() bool { return %s }\n", lm.Clause.Name, exprString(fset, e))
		}
		// header with only the imports the synthesized text mentions
		body := b.String()
		bodyNoStr := regexp.MustCompile("\"[^\"\n]*\"").ReplaceAllString(body, "\"\"")
		var hb strings.Builder
		fmt.Fprintf(&hb, "package %s\n\nimport (\n", pkgName)
		seenName := map[string]bool{}
		for _, k := range sortedKeys(imports) {
			fs := strings.Fields(k)
			path := strings.Trim(fs[len(fs)-1], `"`)
			name := filepath.Base(path)
			if len(fs) == 2 {
				name = fs[0]
			} else if strings.HasPrefix(name, "v") && len(name) <= 3 {
				name = filepath.Base(filepath.Dir(path))
			}
			if i := strings.Index(name, "."); i >= 0 {
				name = name[:i]
			}
			name = strings.TrimPrefix(name, "go-")
			if seenName[name] || !regexp.MustCompile(`\b`+regexp.QuoteMeta(name)+`\.[A-Za-z_]`).MatchString(bodyNoStr) {
				continue
			}
			seenName[name] = true
			fmt.Fprintf(&hb, "\t%s\n", k)
		}
		hb.WriteString(")\n")
		cs.Overlay[filepath.Join(dir, "verif_synth_gen.go")] = []byte(hb.String() + body)
	}
	return nil
}

// after loading: resolve clause ASTs, functions, spec functions
func (cs *ContractSet) resolve(l *Loaded) []string {
	var drift []string
	for _, c := range cs.List {
		if c.IfaceMethod {
			if cs.ByIface == nil {
				cs.ByIface = map[string]*Contract{}
			}
			cs.ByIface[c.Pkg+"."+c.FuncName] = c
			continue
		}
		c.Fn = l.findFunc(c.Qual)
		if c.Fn == nil || c.Decl == nil {
			drift = append(drift, c.Qual)
			continue
		}
		cs.ByFn[c.Fn] = c
	}
	for path, p := range l.ByPath {
		short := strings.TrimPrefix(path, modPath+"/pkg/")
		for _, f := range p.Syntax {
			fname := l.Prog.Fset.Position(f.Pos()).Filename
			if !strings.HasSuffix(fname, "verif_synth_gen.go") {
				continue
			}
			for _, d := range f.Decls {
				fd, ok := d.(*ast.FuncDecl)
				if !ok || fd.Body == nil {
					continue
				}
				if strings.HasPrefix(fd.Name.Name, "verif__") {
					// find clause
					ret := fd.Body.List[0].(*ast.ReturnStmt).Results[0]
					for _, c := range cs.List {
						for _, cl := range append(append([]*Clause{}, c.Requires...), c.Ensures...) {
							if c.Pkg == short && cl.Name == fd.Name.Name {
								cl.Expr, cl.Info = ret, p.TypesInfo
							}
						}
						for _, g := range c.Ghosts {
							if c.Pkg == short && g.Clause.Name == fd.Name.Name {
								g.Clause.Expr, g.Clause.Info = ret, p.TypesInfo
							}
						}
					}
					for _, cl := range cs.KFClauses {
						if cl.Name == fd.Name.Name && strings.HasPrefix(cl.Name, "verif__kfregion") {
							// names are unique per package; check the package through the contract
							cl.Expr, cl.Info = ret, p.TypesInfo
						}
					}
					for _, gi := range append(append([]*GlobalInv{}, cs.GInvs...), cs.Axioms...) {
						if gi.Pkg == short && gi.Clause.Name == fd.Name.Name {
							gi.Clause.Expr, gi.Clause.Info = ret, p.TypesInfo
						}
					}
					for _, lm := range cs.Lemmas {
						if lm.Pkg == short && lm.Clause.Name == fd.Name.Name {
							lm.Clause.Expr, lm.Clause.Info = ret, p.TypesInfo
						}
					}
					continue
				}
				if fd.Recv == nil {
					cs.SpecDecls[path+"."+fd.Name.Name] = &specFunc{Decl: fd, Info: p.TypesInfo, Pkg: short}
				}
			}
		}
	}
	return drift
}

var overlayFiles map[string][]byte

func readFileOverlay(name string) ([]byte, error) {
	if b, ok := overlayFiles[name]; ok {
		return b, nil
	}
	return os.ReadFile(name)
}

func (c *Contract) ClassNames() []string {
	var out []string
	for _, cl := range c.Ensures {
		if cl.Class != "" {
			out = append(out, cl.Class)
		}
	}
	return out
}
