#!/usr/bin/env python3
"""Regenerates /verif/MANIFEST.json from the per-property table below (source of truth for the manifest)."""
import json, subprocess, os
ids = [json.loads(l)['id'] for l in open('/verif/properties.jsonl')]
commits = subprocess.run(["git","-C","/repo","log","--format=%H %s"],capture_output=True,text=True).stdout.splitlines()
hook_commits = [c.split()[0] for c in commits if c.split(" ",1)[1].startswith("verif:")]

CLAIMED = {
 "C15": dict(
   text="A small kernel-level part of the property: the backslash-sequence scanners lib.UnbackslashStringLiteral / UnhexStringLiteral and their recognisers (\\ooo and \\xhh exactly, digit classifiers exactly, identity on text without backslashes, never index outside the text, always terminate); the capture interpolation behind sub/gsub/=~ (lib.InterpolateCaptures: identity without \\d, a replacement that is exactly one \\d yields exactly capture d, never indexes outside replacement or the ten capture slots), the capture-copy loops over regexp results (at most ten slots, groups beyond the ninth ignored, slices inside the input); leftpad/rightpad terminate for every pad string.",
   note="Not decided (most of the property): UTF-8 character counting and 1-up bounds of strlen/substr/truncate/format (unicode/utf8 and rune conversion are library code seen as uninterpreted functions), agreement of sub/gsub/regextract/splitax/=~ with a reference regex engine (package regexp trusted: only the documented shape of FindAllStringSubmatchIndex is assumed), base64/hex/latin1/json inverse pairs, digests, printf rendering (package fmt), the verbs wrapping these functions.",
   ref="DESIGN.md §3.C15"),
 "C02": dict(
   text="The clause of the property that the outcome depends only on which formats are selected, not on how the selection is spelled, is decided for the format-selection flags: each of the 91 keystroke-saver flags of the documented matrix (docs/src/reference-main-flag-list.md: row = input format, column = output format) and each of the 34 flags documented as 'Use X format for input / output / input and output data' has, as a machine-checked postcondition of its parser closure in cli.FLAG_TABLE (found through the entry's name), that it selects exactly those formats (for JSON output also list-wrapping on; for JSON Lines output the jsonl writer or JSON with wrapping and multi-line off) and consumes one argument. The expectations are generated from the documentation, not from the code.",
   note="Not decided: A->B->A and A->B = A->C->B over record streams; flatten/unflatten as inverse pair (needs recursive specs over nested values); -i/-o/--io two-argument forms, named separators and aliases, .mlrrc line handling; the other ~130 flags.",
   ref="DESIGN.md §3.C02"),
 "C01": dict(
   text="Field-level codecs and the CSV record writer are proved against byte-level specifications, with the output buffer modelled as the ghost sequence of all bytes written: TSV encode/decode (length bounds, no raw tab/newline/CR ever emitted, identity on fields without special bytes, exact text of each single escape), the CSV quoting decision (field needs quotes iff it contains the delimiter, a quote, CR or LF, or is the Postgres terminator; ASCII delimiters), the CSV record writer (append-only; exact text of records of 0, 1 and 2 fields unquoted, of one field under quote-all, of a one-byte field holding each special byte, with LF and CRLF line endings), DKVPX field quoting, the JSON string encoder (never a raw control character for any input, identity between quotes on plain text, the named escapes), and the three line readers (every byte consumed is accounted for: line + one terminator, or an unterminated last line).",
   note="Not decided: the readers' record state machines (the fork of encoding/csv, DKVPX readRecord, XTAB, PPRINT, markdown, YAML), header/schema state of the writers, implicit header/headerless/BOM options, the independent RFC-4180/IANA-TSV/RFC-8259 reader clause, records of more than two CSV fields (needs a recursive encoding function). Assumed: models of bytes.Buffer/strings.Builder/bufio.Writer/bufio.Reader.ReadString/strings.IndexAny/fmt.Sprintf (format shape only); colours off (colorizer.NoColor).",
   ref="DESIGN.md §3.C01"),
 "C05": dict(
   text="The stream context is proved exactly: UpdateForStartOfFile sets FILENAME, increments FILENUM, resets FNR and keeps NR; UpdateForInputRecord increments NR and FNR and nothing else; no other context object changes; NewContext starts at zero; a record's context is a field-by-field copy taken at creation. The protocol 'count, then create' is a ghost typestate: at each of the 17 calls of NewRecordAndContext in the 15 reader functions of pkg/input the context is proved to be in the state UpdateForInputRecord leaves it in.",
   note="Not decided: then-chaining equals piping (two processes), concatenation of files as a whole, NF mid-expression, end-block NR, compressed and prepipe inputs, that UpdateForStartOfFile is called once per file (no exit obligation could carry it through the channel operations), double counting.",
   ref="DESIGN.md §3.C05"),
 "C09": dict(
   text="The collating order used by sort -n/-nr, the sorting functions, min, max and top: the 12x12 table cmp_dispositions is checked cell by cell against the documented ranking (numeric < boolean < void/string < ... < absent; a cell above the rank blocks is the constant -1 and its mirror image the constant +1), the comparison kernels are proved equal to the sign function of their operands, Cmp and the numeric comparators are proved to dispatch correctly for all 144 kind pairs and hence to obey the ranking and the value clauses, and seven lemmas show that those value clauses are antisymmetric and transitive on ints up to 2^53 and non-NaN floats (mixed int/float cases in the bit-vector encoding).",
   note="Not decided: that the sort verb applies the comparators in precedence order (a closure passed to sort.Slice calling function values chosen by a flag switch), stability for identical key texts (grouping), the spill group of key-less records, sort_by_key/sort_by_value/sort with a user comparator, natural sort (third-party), case-folded and lexical comparators (strings.ToLower and String() of collections are library/trusted). bytes.Compare is assumed to return -1, 0 or +1.",
   ref="DESIGN.md §3.C09"),
 "C10": dict(
   text="Kernels of the aggregating verbs: the percentile kernels never index outside the sorted array for any p (NaN, infinities, negative, above 100) and return the element at the clamped index; the stats1 accumulators count/null_count/sum/mean/min/max are proved against their definitions (count grows by one per value, null_count by one per empty or JSON-null value, a non-numeric value leaves sum and mean untouched, an integer running sum plus an integer value is the exact integer sum while it fits in 64 bits, Reset returns to the initial state); the grouping key escapes commas and backslashes inside values.",
   note="Not decided: variance/skewness/kurtosis numerics (floating-point identities), percentile keeper sorting, sliding windows, merge-fields, step, top, fraction, histogram, most/least-frequent, fill-down, count-distinct as whole verbs; first-appearance order of groups (lib.OrderedMap is generic and not under contract); injectivity of the escaped key is argued, not proved (needs a recursive spec).",
   ref="DESIGN.md §3.C10"),
 "C11": dict(
   text="Per-record step contracts of the selecting verbs: head (unkeyed, keyed, all-but-last-k, constructor), tail (last-k, from-start, constructor), decimate, tac, nothing. Each contract states exactly what is appended to the output list - the very record handed in, by pointer identity, exactly when the per-group counter allows it (count <= k, count > k-1, position congruent to the kept remainder) or when it is the end-of-stream marker - that earlier output entries are kept, how the per-group counters change for every group key, and for head that the downstream-done flag is sent at most once in the transformer's life; tac emits the stored records in reverse order at end of stream.",
   note="Not decided: filter, grep, having-fields, sample, bootstrap, shuffle, group-by, group-like, uniq -a, skip-trivial-records, cat -n -g; the stream-level statements (first k, all but last k, |head|+|tail| = N) follow from the step contracts by induction on the stream, which is a paper argument; the windows of head -n -k / tail -n k are only proved safe (their content clauses need non-aliasing invariants of the per-group lists). GetSelectedValuesJoined and HandleDefaultDownstreamDone are trusted frames.",
   ref="DESIGN.md §3.C11"),
 "C18": dict(
   text="Zero-annotation safety sweep: every BIF_* function, every function and method of pkg/lib, pkg/cli (including each of the 263 flag-parser closures, verified on its own under the situation FlagTable.Parse creates), pkg/types, pkg/dkvpx, pkg/output and pkg/scan gets a default contract (non-nil receivers, well-formed value arguments, argc == len(args)) and every index, slice, division, shift, type assertion, make, nil-map write, nil-function call, explicit panic and internal-coding-error assertion in it is an obligation; those that discharge are claimed. The thorough tier adds pkg/mlrval, pkg/input, pkg/runtime, pkg/transformers and pkg/transformers/utils. Loops with explicit contracts (scanners, codecs, literal unbackslashing) also carry decreases clauses.",
   note="Not decided: obligations that need a precondition or loop invariant nobody wrote (reported as unclaimed in the evidence, never as alarms); nil dereferences; the generated lexer/parser (emptied in this tree); hangs of goroutine compositions; third-party code (strptime, YAML, natsort); termination of loops without a decreases clause.",
   ref="DESIGN.md §3.C18"),
 "C12": dict(
   text="The record type Mlrmap (doubly-linked list + optional hash index) is verified against an abstract view kept in ghost state (seq: the sequence of entries, idx: the position of an entry): every list operation the restructuring verbs are built from - linkNewEntry, linkAtHead/Tail, Unlink, findEntry (three branches), buildIndex, Has, Get, PutReference (existing field keeps its position, new field is appended), PrependReference, Remove, pop, MoveToHead/Tail, Rename (three cases + identity), findEntryByPositionalIndex, RemoveWithPositionalIndex, Clear - has a contract 'requires well-formed, ensures well-formed and the view changes in closed form', with whole-view postconditions (every other entry keeps pointer identity, name, value and relative order), key uniqueness and the no-stale-key / every-field-indexed index invariant. Loops over the list carry invariants tied to the ghost position and a decreases clause.",
   note="Not under contract: the verbs themselves (pkg/transformers: cut, reorder, template, regularize, unsparsify, nest, reshape, ...; they need the emptied parser to compile and were not reached), PutCopy/PutReferenceAfter, Label, SortByKey, flatten/unflatten inverse laws. PutNameWithPositionalIndex is under contract but its invariant obligation does not discharge within the budget (unclaimed). Copy() trusted.",
   ref="DESIGN.md §3.C12"),
 "C03": dict(
   text="The pass-through guarantee is reduced to a frame condition on the value representation and proved function by function: every inferrer (default, -O, -A, -S), the three Set* setters they use, Type(), String(), OriginalString(), StringMaybeQuoted(), GetTypeName/GetTypeBit and setPrintRep keep the original text byte for byte (printrep unchanged and still valid) and touch no other value; String() returns exactly that text unless --ofmt is set and the value is a float (the documented exception, stated literally in the contract).",
   note="Assumed: FormatAsJSON (collections) and Copy are trusted contracts; the --ofmt formatter is an interface-level assumed contract; that each verb/DSL node reaches field values only through these functions (read-only API) is NOT checked (no call-graph frame sweep was built); JSON/YAML re-rendering of non-JSON numerals (marshalJSON*) is not under contract.",
   ref="DESIGN.md §3.C03"),
 "C14": dict(
   text="Kernel-level contracts named by the property: 1-up indexing with negative aliases (UnaliasArrayLengthIndex/UnaliasArrayIndex/arrayGetAliased, exact table for all ints), inclusive slices with out-of-range trimming for 1-up and 0-up callers (MillerSliceAccess, all int64 bounds), auto-extend (LengthenMlrvalArray: exact new length, old elements kept, new slots JSON null; three loops with invariants, aliasing-aware), the type gate (TypeGatedMlrvalName.Check/Assign/NewTypeGatedMlrvalVariable: gate applied at every assignment, failed assignment leaves the slot unchanged), block scoping at the data-structure level (StackFrame.has/get/clear, StackFrameSet.get returns the innermost binding, with termination; cleared pooled frames have no bindings).",
   note="Not decided by this family: the interpreter as a whole (pkg/dsl/cst: closures over a generated parser that is emptied in this tree), precedence/grammar, control flow, emit splitting, UDF call protocol, 'set updates the nearest enclosing binding' (StackFrameSet.set: frame contracts over Go maps did not discharge), recursive PutIndexed. Copy() is a trusted contract. Absent-skip is under C08, field order under C12.",
   ref="DESIGN.md §3.C14"),
 "C16": dict(
   text="Miller's own arithmetic around the (trusted) Go time package: splitIntToDHMS is proved to split every integer except the minimum int64 into d/h/m/s whose magnitudes recombine exactly to |u| with the sign on the leading non-zero component only (the inverse law of sec2dhms/dhms2sec at the integer level); the nanosecond divisor table is 10^(9-n) cell by cell and goTimeToFormattedTime never indexes it out of range nor divides by its zero slot for any requested precision; sec2dhms/sec2hms/fsec2dhms/fsec2hms/dhms2sec/dhms2fsec/hms2sec/hms2fsec are panic-free for every well-formed argument kind and return string or error.",
   note="Trusted: Go time/strftime (Gregorian and IANA rules, DST), fmt.Sprintf/Sscanf text layer (assumed mutually inverse on %d). Not decided: strptime (pkg/pbnjay-strptime) - not under contract; float recombination error bound; *_local zone selection.",
   ref="DESIGN.md §3.C16"),
 "C06": dict(
   text="The scanner pkg/scan (FindScanType and its six helpers, all byte loops with inductive invariants, no bound on the field length) is proved equal to a string-level specification of the documented number grammar (ClassStr: sign, 0x/0o/0b prefixes, leading zeros, float characters, everything else string); the four 128-cell digit tables are checked cell by cell; the inferrer tables are proved to be indexed by scan type; every inferrer's precondition is the scanner's postcondition for its class and its postcondition gives the documented kind (int/float/string/empty, -O, -A, -S variants), a well-formed payload and the untouched original text; Type() infers once; the is_* functions are proved to be functions of that single classification.",
   note="Assumed: strconv.ParseInt/ParseUint/ParseFloat are uninterpreted (numeric VALUES of literals, hex two's-complement wrap and float accuracy are not decided; one trusted axiom: ParseFloat accepts every all-decimal-digit text); lengths of strings/slices <= 2^40; JSON decode dispatch (string token never inferred) is not under contract.",
   ref="DESIGN.md §3.C06"),
 "C08": dict(
   text="Static table invariants and contracts: every cell of the 26 disposition matrices/vectors of the arithmetic, bitwise, dot, min/max and math-library operators is read from the composite-literal initialiser of /repo and must hold a function whose own proved contract puts it in the class the null-data rule demands (absent op absent = absent, absent/empty identity returns the other operand pointer-identically, error with scalar = error, mirrored kinds for commutative operators); the dispatchers BIF_* are verified against the table contents for all 144 operand-kind pairs symbolically (index safety, kernel preconditions met in every cell).",
   note="Assumed: tables are only stored to by the package initialiser (checked by a static scan of all stores, obligation #table.frame); singleton invariants (ABSENT, VOID, ...) assumed across unverified code; error-constructor contracts trusted; the pending (not yet inferred) case of Type() is specified under C06. Not decided here: the assignment-skip clause inside pkg/dsl/cst (interface dispatch over the AST node types) and variadic min/max folding.",
   ref="DESIGN.md §3.C08"),
 "C07": dict(
   text="Machine-checked contracts on the real arithmetic kernels of pkg/bifs (arithmetic.go, bits.go, mathlib.go): every obligation is a verification condition generated from go/ssa of /repo's working tree (64-bit bit-vectors + IEEE-754 SMT floating point, no bound) and discharged by z3/cvc5. Postconditions are the sentences of the property (exact int when it fits, float otherwise, floor division, divisor-sign modulus, two's-complement dot/bit operators, shifts beyond 63, no panic).",
   note="Assumed: go/ssa construction; SMT solvers; math.Pow and other math-library functions uninterpreted (accuracy of ** not decided); float->int conversion out of range is an unspecified value (Go spec); error-constructor contracts trusted; dispatch through the disposition matrices is decided under C08, not here.",
   ref="DESIGN.md §3.C07"),
}
NA = {
 "C04": "Batch-size and scheduling independence, termination and streaming are properties of goroutine compositions; the VC generator havocs the heap at go, select and channel receive, so no contract in reach can state them. Two mechanisms named by the anchors are proved under other ids (hash-index transparency of findEntry under C12, send-once of the downstream-done flag in head under C11). See DESIGN.md §3.C04.",
 "C13": "Pairing completeness is relational over two multisets of records; the bucket keeper and the half-streaming step are long methods over the generic lib.OrderedMap and channels, and no contract written carries a pairing statement. Only the grouping-key escaping (shared with C10) is proved. See DESIGN.md §3.C13.",
 "C17": "Error delivery crosses three goroutines and two capacity-1 channels; whether some ordering loses the error is a property of all schedules, which contracts on sequential functions cannot state (the generator havocs at every receive/select). The line readers' byte accounting is proved under C01. See DESIGN.md §3.C17.",
 "C19": "Crash consistency quantifies over crash points between os.CreateTemp, os.Rename and os.Chmod; it needs an abstract file system with event traces, which the engine does not have (only ghost counters), and processFileInPlace mixes os calls, goroutines and the whole stream. See DESIGN.md §3.C19.",
 "C20": "Correctness of the open-file LRU depends on the whole history of target switches; MultiOutputHandlerManager and FileOutputHandler mix maps, a linked list, os files and per-file goroutines, and no invariant written for them discharged soundly. Their map/list safety obligations are in the thorough C18 sweep. See DESIGN.md §3.C20.",
}

checks = []
for pid in ids:
    if pid not in CLAIMED: continue
    c = CLAIMED[pid]
    checks.append({
      "property_id": pid,
      "quick_cmd": f"./check {pid} quick",
      "thorough_cmd": f"./check {pid} thorough",
      "evidence_file": f"/verif/evidence/{pid}.json",
      "replay_cmd_template": "cat {path}   # replay file: obligation, SMT query, solver output, model inputs, generated Go test, its output",
      "engine": "mlrvc",
      "level_claimed": {"category": "proof", "text": c["text"], "design_ref": c["ref"]},
      "level_note": c["note"],
      "technique": "contract-based deductive verification: requires/ensures/loop invariants on the real Go functions (comment-only contract files in /repo), weakest-precondition VCs generated over go/ssa, discharged by z3 4.8.12 / z3 5.1.0 / cvc5 1.0.3; counterexamples replayed with go test -overlay",
    })
m = {
 "version": 1,
 "setup_cmd": "./setup.sh",
 "hooks": {"guard": "verif",
           "enable": "-tags verif (the hook commits only add comment-only files pkg/*/verif_contracts.go with //go:build verif; mlrvc reads them as text, no code is enabled)",
           "baseline_off_cmd": "for m in $(cat /w/out/gomods.txt); do MF=$(cd /repo/$m && . /w/out/goenv.sh && gomodflag); (cd /repo/$m && go test $MF -json -vet=off -count=1 -timeout 25m ./...); done",
           "source_commits": hook_commits, "add_only": True},
 "engines": [{"name": "mlrvc", "path": "/verif/engine", "serves_properties": sorted(CLAIMED),
              "kind_free_text": "verification-condition generator over go/ssa of /repo's working tree + Gobra-style contracts in //@ comments; obligations discharged by z3/z3-new/cvc5; models replayed on the real code with go test -overlay"}],
 "checks": checks,
 "notes": "Exit codes of ./check: 0 held (KNOWN-FINDING lines allowed), 1 violation (VIOLATION line), 3 undecided/engine error (no VIOLATION line). Claims: /verif/claims/Cxx.txt; known findings: /verif/known_findings.json.",
 "not_applicable": [{"property_id": i, "reason": NA[i]} for i in ids if i not in CLAIMED],
}
json.dump(m, open('/verif/MANIFEST.json','w'), indent=1)
# the same notes travel with every evidence file (read by mlrvc when it writes evidence/Cxx.json)
nd = {pid: ["NOT DECIDED / ASSUMED (" + pid + "): " + part.strip() for part in CLAIMED[pid]["note"].replace("Not decided:", "|Not decided:").replace("Assumed:", "|Assumed:").replace("Trusted:", "|Trusted:").replace("Not under contract:", "|Not under contract:").split("|") if part.strip()] for pid in CLAIMED}
json.dump(nd, open('/verif/not_decided.json','w'), indent=1)
print("claimed:", sorted(CLAIMED))
