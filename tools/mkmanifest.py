#!/usr/bin/env python3
"""Regenerates /verif/MANIFEST.json from the per-property table below (source of truth for the manifest)."""
import json, subprocess, os
ids = [json.loads(l)['id'] for l in open('/verif/properties.jsonl')]
commits = subprocess.run(["git","-C","/repo","log","--format=%H %s"],capture_output=True,text=True).stdout.splitlines()
hook_commits = [c.split()[0] for c in commits if c.split(" ",1)[1].startswith("verif:")]

CLAIMED = {
 "C12": dict(
   text="The record type Mlrmap (doubly-linked list + optional hash index) is verified against an abstract view kept in ghost state (seq: the sequence of entries, idx: the position of an entry): every list operation the restructuring verbs are built from - linkNewEntry, linkAtHead/Tail, Unlink, findEntry (three branches), buildIndex, Has, Get, PutReference (existing field keeps its position, new field is appended), PrependReference, Remove, pop, MoveToHead/Tail, Rename (three cases + identity), findEntryByPositionalIndex, RemoveWithPositionalIndex, Clear - has a contract 'requires well-formed, ensures well-formed and the view changes in closed form', with whole-view postconditions (every other entry keeps pointer identity, name, value and relative order), key uniqueness and the no-stale-key / every-field-indexed index invariant. Loops over the list carry invariants tied to the ghost position and a decreases clause.",
   note="Not under contract: the verbs themselves (pkg/transformers: cut, reorder, template, regularize, unsparsify, nest, reshape, ...; they need the emptied parser to compile and were not reached), PutCopy/PutReferenceAfter, Label, SortByKey, flatten/unflatten inverse laws. PutNameWithPositionalIndex is under contract but its invariant obligation does not discharge within the budget (unclaimed). Copy() trusted.",
   ref="DESIGN.md §3.C12"),
 "C03": dict(
   text="The pass-through guarantee is reduced to a frame condition on the value representation and proved function by function: every inferrer (default, -O, -A, -S), the three Set* setters they use, Type(), String(), OriginalString(), StringMaybeQuoted(), GetTypeName/GetTypeBit and setPrintRep keep the original text byte for byte (printrep unchanged and still valid) and touch no other value; String() returns exactly that text unless --ofmt is set and the value is a float (the documented exception, stated literally in the contract).",
   note="Assumed: FormatAsJSON (collections) and Copy are trusted contracts; the --ofmt formatter is an interface-level assumed contract; that each verb/DSL node reaches field values only through these functions (read-only API) is NOT checked (no call-graph frame sweep was built); JSON/YAML re-rendering of non-JSON numerals (marshalJSON*) is not under contract.",
   ref="DESIGN.md §3.C03"),
 "C14": dict(
   text="Kernel-level contracts named by the property: 1-up indexing with negative aliases (UnaliasArrayLengthIndex/UnaliasArrayIndex/arrayGetAliased, exact table for all ints), inclusive slices with out-of-range trimming for 1-up and 0-up callers (MillerSliceAccess, all int64 bounds), auto-extend (LengthenMlrvalArray: exact new length, old elements kept, new slots JSON null; three loops with invariants, aliasing-aware), the type gate (TypeGatedMlrvalName.Check/Assign/NewTypeGatedMlrvalVariable: gate applied at every assignment, failed assignment leaves the slot unchanged), block scoping at the data-structure level (StackFrame.has/get/clear, StackFrameSet.get returns the innermost binding, with termination; cleared pooled frames have no bindings).",
   note="Not decided by this family: the interpreter as a whole (pkg/dsl/cst: closures over a generated parser that is emptied in this tree), precedence/grammar, control flow, emit splitting, UDF call protocol, 'set updates the nearest enclosing binding' (StackFrameSet.set: frame contracts over Go maps did not discharge), recursive PutIndexed. Copy() is a trusted contract. Absent-skip is under C08, field order under C12.",
   ref="DESIGN.md §3.C14"),
 "C16": dict(
   text="Miller's own arithmetic around the (trusted) Go time package: splitIntToDHMS is proved to split every integer except the minimum int64 into d/h/m/s whose magnitudes recombine exactly to |u| with the sign on the leading non-zero component only (the inverse law of sec2dhms/dhms2sec at the integer level); the nanosecond divisor table is 10^(9-n) cell by cell and goTimeToFormattedTime never indexes it out of range nor divides by its zero slot for any requested precision; sec2dhms/sec2hms/fsec2dhms/fsec2hms/dhms2sec/dhms2fsec/hms2sec/hms2fsec are panic-free for every well-formed argument kind and return string or error.",
   note="Trusted: Go time/strftime (Gregorian and IANA rules, DST), fmt.Sprintf/Sscanf text layer (assumed mutually inverse on %d). Not decided: strptime (pkg/pbnjay-strptime) - not under contract; float recombination error bound; *_local zone selection.",
   ref="DESIGN.md §3.C16"),
 "C06": dict(
   text="The scanner pkg/scan (FindScanType and its six helpers, all byte loops with inductive invariants, no bound on the field length) is proved equal to a string-level specification of the documented number grammar (ClassStr: sign, 0x/0o/0b prefixes, leading zeros, float characters, everything else string); the four 128-cell digit tables are checked cell by cell; the inferrer tables are proved to be indexed by scan type; every inferrer's precondition is the scanner's postcondition for its class and its postcondition gives the documented kind (int/float/string/empty, -O, -A, -S variants), a well-formed payload and the untouched original text; Type() infers once; the is_* functions are proved to be functions of that single classification.",
   note="Assumed: strconv.ParseInt/ParseUint/ParseFloat are uninterpreted (numeric VALUES of literals, hex two's-complement wrap and float accuracy are not decided; one trusted axiom: ParseFloat accepts every all-decimal-digit text); lengths of strings/slices <= 2^40; JSON decode dispatch (string token never inferred) is not under contract.",
   ref="DESIGN.md §3.C06"),
 "C08": dict(
   text="Static table invariants and contracts: every cell of the 26 disposition matrices/vectors of the arithmetic, bitwise, dot, min/max and math-library operators is read from the composite-literal initialiser of /repo and must hold a function whose own proved contract puts it in the class the null-data rule demands (absent op absent = absent, absent/empty identity returns the other operand pointer-identically, error with scalar = error, mirrored kinds for commutative operators); the dispatchers BIF_* are verified against the table contents for all 144 operand-kind pairs symbolically (index safety, kernel preconditions met in every cell).",
   note="Assumed: tables are only stored to by the package initialiser (checked by a static scan of all stores, obligation #table.frame); singleton invariants (ABSENT, VOID, ...) assumed across unverified code; error-constructor contracts trusted; the pending (not yet inferred) case of Type() is specified under C06. Not decided here: the assignment-skip clause inside pkg/dsl/cst (interface dispatch over the AST node types) and variadic min/max folding.",
   ref="DESIGN.md §3.C08"),
 "C07": dict(
   text="Machine-checked contracts on the real arithmetic kernels of pkg/bifs (arithmetic.go, bits.go, mathlib.go): every obligation is a verification condition generated from go/ssa of /repo's working tree (64-bit bit-vectors + IEEE-754 SMT floating point, no bound) and discharged by z3/cvc5. Postconditions are the sentences of the property (exact int when it fits, float otherwise, floor division, divisor-sign modulus, two's-complement dot/bit operators, shifts beyond 63, no panic).",
   note="Assumed: go/ssa construction; SMT solvers; math.Pow and other math-library functions uninterpreted (accuracy of ** not decided); float->int conversion out of range is an unspecified value (Go spec); error-constructor contracts trusted; dispatch through the disposition matrices is decided under C08, not here.",
   ref="DESIGN.md §3.C07"),
}
NA_REASON = "contracts not yet completed (engine under construction); see DESIGN.md §4"

checks = []
for pid in ids:
    if pid not in CLAIMED: continue
    c = CLAIMED[pid]
    checks.append({
      "property_id": pid,
      "quick_cmd": f"./check {pid} quick",
      "thorough_cmd": f"./check {pid} thorough",
      "evidence_file": f"/verif/evidence/{pid}.json",
      "replay_cmd_template": "cat {path}   # replay file: obligation, SMT query, solver output, model inputs, generated Go test, its output",
      "engine": "mlrvc",
      "level_claimed": {"category": "proof", "text": c["text"], "design_ref": c["ref"]},
      "level_note": c["note"],
      "technique": "contract-based deductive verification: requires/ensures/loop invariants on the real Go functions (comment-only contract files in /repo), weakest-precondition VCs generated over go/ssa, discharged by z3 4.8.12 / z3 5.1.0 / cvc5 1.0.3; counterexamples replayed with go test -overlay",
    })
m = {
 "version": 1,
 "setup_cmd": "./setup.sh",
 "hooks": {"guard": "verif",
           "enable": "-tags verif (the hook commits only add comment-only files pkg/*/verif_contracts.go with //go:build verif; mlrvc reads them as text, no code is enabled)",
           "baseline_off_cmd": "for m in $(cat /w/out/gomods.txt); do MF=$(cd /repo/$m && . /w/out/goenv.sh && gomodflag); (cd /repo/$m && go test $MF -json -vet=off -count=1 -timeout 25m ./...); done",
           "source_commits": hook_commits, "add_only": True},
 "engines": [{"name": "mlrvc", "path": "/verif/engine", "serves_properties": sorted(CLAIMED),
              "kind_free_text": "verification-condition generator over go/ssa of /repo's working tree + Gobra-style contracts in //@ comments; obligations discharged by z3/z3-new/cvc5; models replayed on the real code with go test -overlay"}],
 "checks": checks,
 "notes": "Exit codes of ./check: 0 held (KNOWN-FINDING lines allowed), 1 violation (VIOLATION line), 3 undecided/engine error (no VIOLATION line). Claims: /verif/claims/Cxx.txt; known findings: /verif/known_findings.json.",
 "not_applicable": [{"property_id": i, "reason": NA_REASON} for i in ids if i not in CLAIMED],
}
json.dump(m, open('/verif/MANIFEST.json','w'), indent=1)
print("claimed:", sorted(CLAIMED))
