#!/bin/bash
# selftest.sh : must-fail corpus. Applies every seeded change of /verif/seeded to /repo in turn, runs the
# quick check of its property and compares with the recorded outcome (meta.json "detection" starts
# with MISSED for the changes the contracts are known not to catch). /repo must be clean; every
# change is undone straight afterwards. Exit 0 iff every outcome is as recorded.
cd "$(dirname "$0")/.."
if [ -n "$(git -C /repo status --porcelain)" ]; then echo "REFUSING: /repo has uncommitted changes"; exit 2; fi
bad=0
for d in seeded/*/; do
  id=$(basename $d); prop=${id%%-*}
  [ -n "$1" ] && [[ "$id" != $1* ]] && continue
  expect=caught; grep -q '"detection": "MISSED' $d/meta.json && expect=missed
  if ! git -C /repo apply --check $PWD/$d/patch.diff 2>/dev/null; then echo "$id: patch no longer applies (tree has moved on: e.g. a later fix touched the same lines) -- skipped"; continue; fi
  git -C /repo apply $PWD/$d/patch.diff
  out=$(./check $prop quick 2>&1); n=$(echo "$out" | grep -c '^VIOLATION')
  git -C /repo checkout -- .
  got=missed; [ "$n" -gt 0 ] && got=caught
  status=ok; [ "$got" != "$expect" ] && { status=MISMATCH; bad=1; }
  echo "$id: expected $expect, got $got ($n violation lines) $status"
  echo "$out" | grep "^  obligation" | head -3
done
# own canaries (deliberate breaks of contracts added late; all expected caught)
for d in canaries/*/; do
  id=$(basename $d); prop=${id%%-*}
  [ -n "$1" ] && [[ "$id" != $1* ]] && continue
  if ! git -C /repo apply --check $PWD/$d/patch.diff 2>/dev/null; then echo "$id: patch no longer applies -- skipped"; continue; fi
  git -C /repo apply $PWD/$d/patch.diff
  out=$(./check $prop quick 2>&1); n=$(echo "$out" | grep -c '^VIOLATION')
  git -C /repo checkout -- .
  status=ok; [ "$n" -eq 0 ] && { status=MISMATCH; bad=1; }
  echo "canary $id: expected caught, got $n violation lines $status"
  echo "$out" | grep "^  obligation" | head -3
done
exit $bad
