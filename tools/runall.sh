#!/bin/bash
# run the quick (or given) tier of every property that has a claims file; print one line each
cd "$(dirname "$0")/.."
tier=${1:-quick}
shift
props=${@:-$(ls claims | sed 's/.txt//')}
for p in $props; do
  s=$(date +%s)
  out=$(./check $p $tier 2>&1); rc=$?
  e=$(( $(date +%s) - s ))
  echo "$p rc=$rc ${e}s $(echo "$out" | grep -c '^VIOLATION') violations; $(echo "$out" | grep -c '^KNOWN-FINDING') known; $(echo "$out" | tail -1 | cut -c1-150)"
  echo "$out" | grep "^VIOLATION\|undecided\|UNDECIDED\|DRIFT" | head -5
done
