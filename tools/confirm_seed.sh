#!/bin/bash
# confirm_seed.sh <seed dir> <worktree> : confirm that the demonstration fails with the change and passes without,
# that the tree compiles and that the (non-parser) test suite still passes with the change.
sd=$1; wt=$2
cd $wt && git checkout -q -- . && git clean -qfd
meta=$sd/meta.json
demo=$(ls $sd/*_test.go 2>/dev/null | head -1)
[ -z "$demo" ] && { echo "no go demo in $sd"; exit 2; }
pkgline=$(grep -m1 '^package ' $demo | awk '{print $2}')
# destination package dir: from the comment or by package name
dest=pkg/$pkgline
case "$pkgline" in strptime) dest=pkg/pbnjay-strptime;; csv) dest=pkg/go-csv;; utils) dest=pkg/transformers/utils;; esac
tname=$(grep -o "func Test[A-Za-z0-9_]*" $demo | head -1 | sed 's/func //')
cp $demo $wt/$dest/zz_seed_demo_test.go
echo "-- without change:"; (cd $wt && go test -vet=off -count=1 -run "^$tname\$" ./$dest 2>&1 | tail -2)
git apply $sd/patch.diff || { echo "patch failed"; exit 2; }
echo "-- with change:"; (cd $wt && go test -vet=off -count=1 -run "^$tname\$" ./$dest 2>&1 | tail -3)
rm $wt/$dest/zz_seed_demo_test.go
echo "-- build + suite with change:"; (cd $wt && go build ./pkg/bifs ./pkg/cli ./pkg/dkvpx ./pkg/input ./pkg/lib ./pkg/mlrval ./pkg/output ./pkg/scan ./pkg/runtime ./pkg/types ./pkg/transformers/utils ./pkg/go-csv ./pkg/pbnjay-strptime && go test -vet=off -count=1 ./pkg/bifs ./pkg/cli ./pkg/dkvpx ./pkg/input ./pkg/lib ./pkg/mlrval ./pkg/output ./pkg/scan ./pkg/runtime ./pkg/types ./pkg/transformers/utils ./pkg/go-csv ./pkg/pbnjay-strptime 2>&1 | grep -v "^ok\|no test files" | head -5; echo "suite done")
git checkout -q -- . && git clean -qfd
