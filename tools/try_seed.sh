#!/bin/bash
# try_seed.sh <patch> <property>... : apply a seeded change to /repo, run the quick checks, undo.
patch=$1; shift
if [ -n "$(git -C /repo status --porcelain)" ]; then echo "REFUSING: /repo has uncommitted changes (commit the contract files first)"; exit 2; fi
cd /repo && git apply "$patch" || { echo "patch does not apply"; exit 2; }
for p in "$@"; do
  (cd /verif && ./check $p quick 2>&1 | grep -v "^KNOWN-FINDING" | grep "VIOLATION\|^property\|UNDECIDED\|obligation\|replay:" | cut -c1-260)
  echo "exit($p)=${PIPESTATUS[0]}"
done
git -C /repo checkout -- . && git -C /repo status --short | head -3
